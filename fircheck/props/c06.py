"""C06 — alpha multiply exact, divide faithful and saturating (clauses)."""
import re

from ..engines import alpha_rules, alphapair, deps, lanes, rounding, simd_rules
from ..facts import CheckError
from ..progs import programs
from ..sym import Sym, fmt, short
from . import c03

BACKENDS = ("sse4", "avx2", "neon", "wasm32", "native")
SINK_FLOOR = {"x86": 16, "x86-rayon": 16, "arm": 8, "wasm": 8}


def alpha_fns(prog, op):
    """functions of the alpha back-end modules whose name mentions `op`"""
    out = []
    for f in prog.fns.values():
        m = re.match(r"^alpha::(u8x2|u8x4|u16x2|u16x4|f32x2|f32x4)::(\w+)::", f.name)
        if m and m.group(2) in BACKENDS and op in f.name.rsplit("::", 1)[-1] and f.kind != "closure":
            out.append((f, m.group(1), m.group(2)))
    return sorted(out, key=lambda x: x[0].id)


def saturate(rep, prog, rule):
    rep.rule(rule, "in every SIMD alpha-division routine each value stored to pixel memory is "
             "derived from the quotient only through a saturating narrowing of the component width "
             "(packus / min with a constant <= max / vqmovn / *_narrow_*): cutting the expression "
             "DAG at such nodes, no multiply/divide/add remains reachable from the stored value; "
             "the scalar helpers div_and_clip{,16} return through min(.., max)")
    n = 0
    for f, ty, be in alpha_fns(prog, "divide"):
        width = {"u8x2": 8, "u8x4": 8, "u16x2": 16, "u16x4": 16}.get(ty)
        if width is None or be == "native":
            continue
        sinks = deps.store_sinks(f)
        # closures (pre-reading helper) store as well
        owners = [f] + f.closures()
        for g in owners:
            for (c, ai) in deps.store_sinks(g):
                n += 1
                rep.touch(g)
                tr = deps.Tracer(prog, width)
                val = tr.sym(g).operand(c.args[ai], (c.bb, "term"))
                path = tr.unsaturated(g, val)
                key = "%s|%s" % (g.name, short(c.name))
                if path is None:
                    rep.ok(rule, key, c.at, "stored lanes pass a %d-bit saturation" % width)
                elif path and path[0].startswith("<"):
                    rep.unk(rule, key, c.at, path[0])
                else:
                    rep.bad(rule, "%s|%s" % (_prim(path, g), "unsaturated"), c.at,
                            "%s stores a value that reaches `%s` without a saturating narrowing "
                            "to %d bits: %s" % (g.name, path[-1], width, " <- ".join(path[-8:])))
    rep.floor(rule, "stores in SIMD divide routines", n, SINK_FLOOR.get(rep.cfg, 8))
    for name, width in (("alpha::common::div_and_clip", 8), ("alpha::common::div_and_clip16", 16)):
        f = prog.fn_by_name(name)
        rep.touch(f)
        tr = deps.Tracer(prog, width)
        s = tr.sym(f)
        bad = None
        maybe = None
        top = (1 << width) - 1
        for (bb, j, rv, whole) in f.defs().get(0, []):
            e = s.rvalue(rv, bb)
            p = tr.unsaturated(f, e)
            if p is None:
                continue
            # `if q > MAX { return MAX } q as T`: the truncating return is on the branch where the
            # value was compared with the maximum
            inner = e
            while inner[0] == "cast":
                inner = inner[2]
            bounded = False
            for cond, val in s.facts_at(bb):
                if cond[0] != "bin" or cond[1] not in ("Gt", "Ge", "Lt", "Le"):
                    continue
                a_, b_ = cond[2], cond[3]
                while a_[0] == "cast":
                    a_ = a_[2]
                while b_[0] == "cast":
                    b_ = b_[2]
                for (op, l, r) in ((cond[1], a_, b_), ({"Gt": "Lt", "Lt": "Gt", "Ge": "Le", "Le": "Ge"}[cond[1]], b_, a_)):
                    if l == inner and r[0] == "const" and isinstance(r[1], int):
                        if (op == "Gt" and val is False and r[1] <= top) or \
                                (op == "Ge" and val is False and r[1] <= top + 1) or \
                                (op == "Le" and val is True and r[1] <= top) or \
                                (op == "Lt" and val is True and r[1] <= top + 1):
                            bounded = True
                        else:
                            maybe = fmt(cond)
            if not bounded:
                bad = p
        if bad is None:
            rep.ok(rule, name, f.loc, "returns through min(.., %d) or on a branch bounded by it" % top)
        elif maybe:
            rep.unk(rule, name, f.loc, "%s returns %s on a branch guarded by %s" % (name, " <- ".join(bad[-4:]), maybe[:60]))
        else:
            rep.bad(rule, name + "|unsaturated", f.loc, "%s returns %s without clipping to %d bits"
                    % (name, " <- ".join(bad[-6:]), width))


def convert_range(rep, prog, rule):
    rep.rule(rule, "x86: the operand of every cvtps_epi32 in an alpha-division primitive whose "
             "result feeds colour lanes is bounded below 2^31 for non-zero alpha (lane interval "
             "evaluation: and-masks, byte shuffles, unpack-with-zero, mul/div/min), because the "
             "conversion returns 0x80000000 on overflow and the following pack turns that into 0 "
             "(wasm32: u32x4_trunc_sat_f32x4 followed by a signed narrowing)")
    n = 0
    for f, ty, be in alpha_fns(prog, "divide"):
        width = {"u8x2": 8, "u8x4": 8, "u16x2": 16, "u16x4": 16}.get(ty)
        if width is None or be not in ("sse4", "avx2", "wasm32"):
            continue
        if "__m" not in f.d.get("output", "") and "v128" not in f.d.get("output", ""):
            continue
        rep.touch(f)
        tr = deps.Tracer(prog, width)
        s = tr.sym(f)
        for (bb, j, rv, whole) in f.defs().get(0, []):
            root = s.rvalue(rv, bb, (bb, j))
            for (cv, ctx) in lanes.conversions(tr, f, root):
                n += 1
                le = lanes.LaneEval(tr, f, width)
                arg = cv[3][0] if cv[0] == "callat" else cv[2][0]
                hi = le.hi(arg, ctx)
                key = "%s|cvtps" % f.name
                if hi is None:
                    rep.unk(rule, key, f.loc, "operand range of cvtps_epi32 not evaluated")
                elif hi < 2.0 ** 31:
                    rep.ok(rule, key, f.loc, "operand <= %g" % hi)
                else:
                    rep.bad(rule, key, f.loc, "%s converts a quotient that can reach %g >= 2^31 "
                            "and then narrows it as a signed 32-bit value (x86 cvtps_epi32 "
                            "returns 0x80000000, wasm u32x4_trunc_sat + u16x8_narrow_i32x4 reads "
                            "it as negative): the result lane becomes 0 instead of saturating"
                            % (f.name, hi))
    rep.floor(rule, "float->int conversions in divide primitives", n,
              8 if rep.cfg.startswith("x86") else 2)


def _prim(path, g):
    """name the innermost inlined primitive on the path (position-free key)"""
    inl = [p for p in path if p and p.startswith("inline:")]
    # Tracer labels do not carry 'inline:' in path entries; fall back to module of g
    m = re.match(r"^(alpha::\w+::\w+)::", g.name)
    return m.group(1) if m else g.name


def alpha_lane(rep, prog, rule):
    rep.rule(rule, "in the native alpha routines the alpha component written to the destination "
             "is a plain copy of the source pixel's last component (no arithmetic on its path)")
    n = 0
    for op in ("multiply", "divide"):
        for f, ty, be in alpha_fns(prog, op):
            if be != "native":
                continue
            for g in [f] + f.closures():
                sym = Sym(g)
                for blk in g.blocks:
                    if blk["c"]:
                        continue
                    for st in blk["s"]:
                        if st[0] == "a" and st[2][0] == "agg" and st[2][1] == "array" and \
                                len(st[2][4]) in (2, 4) and len(st[1]) > 1:
                            n += 1
                            rep.touch(g)
                            last = sym.operand(st[2][4][-1], (g.blocks.index(blk), blk["s"].index(st)))
                            tr = deps.Tracer(prog, 64)
                            p = tr.unsaturated(g, last)
                            key = "%s|alpha-lane" % g.name
                            if p is None:
                                rep.ok(rule, key, st[3], "alpha = %s" % fmt(last)[:80])
                            else:
                                rep.bad(rule, key, st[3], "the alpha component stored by %s is "
                                        "computed (%s), not copied" % (g.name, " <- ".join(p[-5:])))
    rep.floor(rule, "native alpha pixel writes", n, 8)


def variants(rep, prog, rule):
    rep.rule(rule, "the two-image and the in-place routine of each alpha operation reach the "
             "same leaf primitives in every back-end module")
    def leaves(f):
        seen, out, work = set(), set(), [f]
        while work:
            g = work.pop()
            if g.id in seen:
                continue
            seen.add(g.id)
            callees = []
            for c in g.calls():
                callees.extend(t for t in prog.call_targets(c)
                               if t.name.startswith(("alpha::", "neon_utils::", "wasm32_utils::",
                                                     "simd_utils::")))
            work.extend(g.closures())
            if not callees and g.kind != "closure":
                out.add(g.name)
            work.extend(callees)
        return out
    n = 0
    for op in ("multiply", "divide"):
        mods = {}
        for f, ty, be in alpha_fns(prog, op):
            last = f.name.rsplit("::", 1)[-1]
            if last == "%s_alpha" % op:
                mods.setdefault((ty, be), {})["two"] = f
            elif last == "%s_alpha_inplace" % op:
                mods.setdefault((ty, be), {})["one"] = f
        for (ty, be), d in sorted(mods.items()):
            if "two" not in d or "one" not in d:
                continue
            n += 1
            rep.touch(d["two"])
            a, b = leaves(d["two"]), leaves(d["one"])
            a = {x for x in a if not x.endswith(("_alpha", "_alpha_inplace"))}
            b = {x for x in b if not x.endswith(("_alpha", "_alpha_inplace"))}
            prim = lambda s: {x for x in s if "row" not in x.rsplit("::", 1)[-1]}
            key = "%s::%s::%s" % (ty, be, op)
            other = "divide" if op == "multiply" else "multiply"
            wrong = [x for x in (a | b) if other in x.rsplit("::", 1)[-1]]
            if wrong:
                rep.bad(rule, key + "|other-op", d["one"].loc, "%s routines reach %s" % (op, wrong))
            elif prim(a) == prim(b):
                rep.ok(rule, key, d["two"].loc, "%s" % sorted(x.rsplit("::", 1)[-1] for x in prim(a)))
            else:
                pa = sorted(x.rsplit("::", 1)[-1] for x in prim(a))
                pb = sorted(x.rsplit("::", 1)[-1] for x in prim(b))

                def family(names):
                    fam = set()
                    for x in names:
                        if x.startswith("div_and_clip"):
                            fam.add("table")        # fixed-point reciprocal table (portable code)
                        elif re.match(r"^divide_alpha_\d+_pixels?$", x) or x.startswith("mul_color_recip"):
                            fam.add("float")        # float quotient / float reciprocal per lane
                    return fam
                fa, fb = family(pa), family(pb)
                # 16-bit division: the float quotient of the SIMD primitives and the 33-bit
                # fixed-point reciprocal of the portable code pick different neighbours of
                # c*65535/a for about 0.04 % of (c, a) pairs (e.g. c = 23187, a = 33824:
                # 44926 vs 44925) - both are allowed by the property, mixing them between the
                # two variants of one operation is not.
                if op == "divide" and ty in ("u16x2", "u16x4") and fa != fb:
                    rep.bad(rule, key + "|families", d["one"].loc, "within the %s back-end the "
                            "two-image %s routine divides with %s (%s) but the in-place routine "
                            "with %s (%s): the float quotient and the fixed-point reciprocal pick "
                            "different neighbours of c*65535/a for some (c, a), so the two variants "
                            "give different colours on the pixels handled by the other primitive"
                            % (be, op, sorted(fa), pa, sorted(fb), pb))
                else:
                    rep.unk(rule, key, d["two"].loc, "two-image reaches %s, in-place reaches %s"
                            % (pa, pb))
    rep.floor(rule, "alpha routine pairs", n, 20)


def run(rep, tier):
    cfgs = ["x86"] if tier == "quick" else ["x86", "x86-rayon", "arm", "wasm"]
    for cfg, prog in programs(cfgs):
        rep.set_cfg(cfg)
        rep.call(alpha_rules.alpha_set, rep, prog, "C06.alpha-set")
        rep.call(alpha_rules.zero_guard, rep, prog, "C06.zero-guard")
        rep.call(saturate, rep, prog, "C06.saturate")
        rep.call(simd_rules.lane_bypass, rep, prog, "C06.lane-bypass")
        rep.call(rounding.round_div, rep, prog, "C06.round-div")
        from ..engines import type_tables
        rep.call(type_tables.t_types, rep, prog, "C06.table")
        from ..engines import row_coverage
        rep.call(row_coverage.zip_store, rep, prog, "C06.store-every-pixel")
        from ..engines import simd_rules as _sr
        rep.call(_sr.movemask_const, rep, prog, "C06.movemask-const")
        rep.call(_sr.float_alpha_unsaturated, rep, prog, "C06.float-unsaturated")
        rep.call(row_coverage.divide_every_chunk, rep, prog, "C06.divide-every-chunk",
                 {"x86": 12, "x86-rayon": 12, "wasm": 2}.get(cfg, 0))
        rep.call(type_tables.recip_table, rep, prog, "C06.recip-table")
        rep.call(type_tables.recip_table16, rep, prog, "C06.recip-table16")
        rep.call(type_tables.recip_table16, rep, prog, "C06.recip-table16")
        if cfg.startswith("x86"):
            rep.call(alphapair.provenance, rep, prog, "C06.provenance")
        if cfg.startswith("x86") or cfg == "wasm":
            rep.call(convert_range, rep, prog, "C06.convert-range")
        rep.call(alpha_lane, rep, prog, "C06.alpha-lane")
        rep.call(variants, rep, prog, "C06.variants")
        if cfg != "wasm":
            n = rep.call(c03.arith, rep, prog, "C06.scalar-range", only=lambda f: f.file == prog.file_now("src/alpha/common.rs")) or 0
            rep.floor("C06.scalar-range", "arithmetic asserts in alpha/common.rs", n, 10)
