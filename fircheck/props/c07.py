"""C07 — alpha-aware resizing: pipeline typestate of Resizer::resample_convolution."""
import re
from ..cfg import Dom, find_path, reachable_from
from ..engines import alpha_rules, simd_rules
from ..facts import CheckError
from ..progs import programs
from ..sym import Sym, fmt, unstable_locals


def _mentions_local(e, l):
    return l in unstable_locals(e) or _has(e, lambda x: x[0] == "local" and x[1] == l)


def _has(e, pred):
    if not isinstance(e, tuple):
        return False
    if e and isinstance(e[0], str) and pred(e):
        return True
    for x in e:
        if isinstance(x, tuple) and _has(x, pred):
            return True
    return False


def _mentions_param(e, name):
    """the parameter `name`, or the field `name` of a parameter (options carried in a struct)"""
    return _has(e, lambda x: (x[0] == "param" and x[2] == name) or
                (x[0] == "field" and x[2] == name and isinstance(x[1], tuple) and x[1]
                 and x[1][0] in ("param", "deref", "ref")))


def _has_flag(prog, f, name):
    """does f receive a flag of that name (a parameter, or a field of a struct parameter)?"""
    for i in range(1, f.arg_count + 1):
        if f.local_name(i) == name:
            return True
        ty = re.sub(r"^(&(?:'\w+ )?(?:mut )?)+", "", (f.local_ty(i) or "").strip())
        base = re.sub(r"<.*$", "", ty)
        for k, a in prog.adts.items():
            if (a["name"] == base or k.endswith("::" + base)) and len(a["variants"]) == 1:
                if any(fl[0] == name for fl in a["variants"][0]["fields"]):
                    return True
    return False


def pipeline(rep, prog, rule):
    rep.rule(rule, "in resample_convolution: multiply_alpha_typed(src, scratch) happens only under "
             "use_alpha && is_supported; on its success edge the only do_convolution reads a view "
             "derived from that scratch image (crop box of the original), and every path from it "
             "to the return passes exactly one divide_alpha_inplace_typed(dst); no divide exists "
             "outside that edge; every other do_convolution reads the original source view")
    f = prog.fn_by_name("resizer::Resizer::resample_convolution")
    rep.touch(f)
    sym = Sym(f)
    dom = Dom(f)
    calls = f.calls()
    si = f.param_by_role("cropped_src_view")
    if si is None:
        rep.unk(rule, "source-parameter", f.loc, "resample_convolution has no parameter of type "
                "CroppedSrcImageView: the source of the pipeline is not identified")
        return
    SRC = f.local_name(si)
    mul = [c for c in calls if c.name.endswith("MulDiv::multiply_alpha_typed")]
    div = [c for c in calls if "MulDiv::divide_alpha" in c.name]
    conv = [c for c in calls if c.name.endswith("Resizer::do_convolution")]
    rep.floor(rule, "do_convolution calls", len(conv), 1)
    where = f.loc
    if len(mul) != 1:
        rep.unk(rule, "multiply-call", where, "%d multiply_alpha_typed calls; shape not recognised"
                % len(mul))
        return
    mul = mul[0]
    # scratch image = destination argument of the multiply
    scratch = sym.operand(mul.args[2])
    sl = sorted(unstable_locals(scratch))
    if scratch[0] != "local":
        rep.unk(rule, "scratch", where, "destination of multiply_alpha_typed is %s" % fmt(scratch))
        return
    scratch_local = scratch[1]
    # multiply under use_alpha && is_supported
    facts = sym.facts_at(mul.bb)
    has_use_alpha = any(_mentions_param(c, "use_alpha") and v is True for c, v in facts)
    has_supported = any(_has(c, lambda x: x[0] == "call" and x[1] == "is_supported") and v is True
                        for c, v in facts)
    if has_use_alpha and has_supported:
        rep.ok(rule, "gate", mul.at, "multiply dominated by use_alpha && is_supported")
    elif not has_use_alpha and not _has_flag(prog, f, "use_alpha"):
        rep.unk(rule, "gate", mul.at, "resample_convolution has no `use_alpha` parameter or field: "
                "which flag gates the alpha pipeline is not determined")
    elif not has_use_alpha:
        rep.bad(rule, "gate|use_alpha", mul.at,
                "multiply_alpha_typed is not dominated by the `use_alpha == true` edge: alpha "
                "processing happens although the caller disabled it (facts: %s)"
                % [(fmt(c), v) for c, v in facts])
    else:
        rep.bad(rule, "gate|is_supported", mul.at,
                "multiply_alpha_typed is not dominated by `is_supported(P::pixel_type())`")
    # multiply source = the original view, scratch sized like it
    src_e = sym.operand(mul.args[1])
    if _mentions_param(src_e, SRC):
        rep.ok(rule, "multiply-source", mul.at, fmt(src_e))
    else:
        rep.bad(rule, "multiply-source", mul.at, "multiply_alpha_typed reads %s, not the view of "
                "`cropped_src_view`" % fmt(src_e))
    # success edge of the multiply: is_ok(result) == true
    ok_blocks = set()
    for (p, s, cond, val) in sym.edge_facts():
        if val is True and _has(cond, lambda x: x[0] == "call" and x[1] in ("is_ok",)) \
                and _has(cond, lambda x: x[0] == "callat" and x[2] == "multiply_alpha_typed"):
            ok_blocks.add(s)
        if val is False and _has(cond, lambda x: x[0] == "call" and x[1] in ("is_err",)) \
                and _has(cond, lambda x: x[0] == "callat" and x[2] == "multiply_alpha_typed"):
            ok_blocks.add(s)
    if not ok_blocks:
        # is_ok is not in PURE list as call? accept callat form too
        for (p, s, cond, val) in sym.edge_facts():
            if val is True and _has(cond, lambda x: x[0] in ("call", "callat")
                                    and (x[1] == "is_ok" or (len(x) > 2 and x[2] == "is_ok"))):
                ok_blocks.add(s)
    if len(ok_blocks) != 1:
        rep.unk(rule, "success-edge", where, "success edge of multiply not recognised")
        return
    okb = list(ok_blocks)[0]
    on_ok = lambda c: dom.dominates(okb, c.bb)
    # R1/R4: sources of the convolutions
    n_ok_conv = 0
    for c in conv:
        src = sym.operand(c.args[1])
        if on_ok(c):
            n_ok_conv += 1
            if _mentions_local(src, scratch_local):
                cb_ok = _has(src, lambda x: x[0] == "call" and x[1] == "crop_box"
                             and _mentions_param(x, SRC))
                if cb_ok:
                    rep.ok(rule, "premult-source", c.at, fmt(src)[:160])
                else:
                    rep.unk(rule, "premult-source|cropbox", c.at,
                            "crop box of the premultiplied view is %s" % fmt(src)[:160])
            else:
                rep.bad(rule, "premult-source", c.at,
                        "after a successful multiply_alpha_typed the convolution reads %s instead "
                        "of the premultiplied scratch image `%s`; the destination is divided "
                        "afterwards" % (fmt(src)[:160], f.local_name(scratch_local)))
            # R2: divide follows on all paths, exactly once
            dst = sym.operand(c.args[2])
            div_after = [d for d in div if d.bb in reachable_from(f, c.bb)]
            blocked = set()
            for d in div_after:
                for s_ in f.succ[d.bb]:
                    blocked.add((d.bb, s_))
            p = find_path(f, c.bb, f.returns(), blocked_edges=blocked)
            if p is not None:
                rep.bad(rule, "divide-follows", c.at,
                        "a path from the convolution of premultiplied data reaches the return "
                        "without divide_alpha_inplace_typed(dst): %s"
                        % "->".join("bb%d" % b for b in p[:10]))
            else:
                okd = True
                for d in div_after:
                    de = sym.operand(d.args[1])
                    if de != dst:
                        okd = False
                        rep.bad(rule, "divide-target", d.at, "divide is applied to %s, the "
                                "convolution wrote %s" % (fmt(de), fmt(dst)))
                    # a second divide after this one?
                    later = [x for x in div if x is not d and x.bb in reachable_from(f, d.bb)
                             and x.bb != d.bb]
                    if later:
                        okd = False
                        rep.bad(rule, "divide-once", d.at, "two divide_alpha calls on one path")
                if okd:
                    rep.ok(rule, "divide-follows", c.at, "exactly one divide on every path")
        else:
            if _mentions_param(src, SRC) and not _mentions_local(src, scratch_local):
                rep.ok(rule, "plain-source", c.at, fmt(src)[:120])
            else:
                rep.bad(rule, "plain-source", c.at, "convolution outside the premultiply path "
                        "reads %s" % fmt(src)[:160])
            # no divide may follow a plain convolution
            div_after = [d for d in div if d.bb in reachable_from(f, c.bb) and d.bb != c.bb]
            if div_after:
                rep.bad(rule, "plain-no-divide", c.at, "a divide_alpha call follows the "
                        "convolution of un-premultiplied data at %s" % div_after[0].at)
    if n_ok_conv == 0:
        rep.bad(rule, "premult-convolution", where, "no convolution on the success edge of the "
                "multiply: premultiplied data is never resampled")
    # R3: no divide outside the success edge
    for d in div:
        if on_ok(d):
            rep.ok(rule, "divide-gated", d.at, "dominated by multiply success")
        else:
            rep.bad(rule, "divide-gated", d.at, "divide_alpha call not dominated by the success "
                    "edge of multiply_alpha_typed")
    # every path from entry reaches some convolution (C05 also checks it)


def nearest_no_alpha(rep, prog, rule):
    rep.rule(rule, "resample_nearest and copy_image reach no AlphaMulDiv / MulDiv method")
    tid = prog.trait_id("alpha::AlphaMulDiv")
    for name in ("resizer::resample_nearest", "resizer::copy_image"):
        f = prog.fn_by_name(name)
        seen = set()
        work = [f]
        hit = None
        while work and hit is None:
            g = work.pop()
            if g.id in seen:
                continue
            seen.add(g.id)
            rep.touch(g)
            for c in g.calls():
                if c.trait == tid or "mul_div::MulDiv::" in c.name:
                    hit = (g, c)
                    break
                work.extend(prog.call_targets(c))
            work.extend(g.closures())
        if hit:
            rep.bad(rule, name, hit[1].at, "%s reaches %s through %s" % (name, hit[1].name,
                                                                       hit[0].name))
        else:
            rep.ok(rule, name, f.loc, "%d functions reachable, none touches alpha" % len(seen))


def alpha_less_routes(rep, prog, rule):
    """only Nearest (and the same-size copy) may write the destination without the alpha step"""
    from ..engines import flow
    from ..engines.tables import enum_variants
    rep.rule(rule, "in the function that selects the algorithm every call of the alpha-less "
             "resampler resample_nearest(.., dst) is reached only on the ResizeAlg::Nearest edge of "
             "the switch on options.algorithm (or where the alpha flag is false): a shortcut that "
             "sends another algorithm there (Box up-scaling 'is' nearest-neighbour) writes colours "
             "of transparent pixels into the destination, because premultiply / divide live in "
             "resample_convolution")
    f = flow.pipeline_body(prog)
    rep.touch(f)
    sym = Sym(f)
    variants = enum_variants(prog, "resizer::ResizeAlg") or {}
    nearest = [k for k, v in variants.items() if v == "Nearest"]
    calls = [c for c in f.calls() if c.name.endswith("resizer::resample_nearest")]
    rep.floor(rule, "resample_nearest calls in the algorithm switch", len(calls), 1)
    # variants of options.algorithm that can be the selected one at each block: forward dataflow
    # over the switch edges (intersection on an edge, union at joins)
    allv = frozenset(variants.keys())
    cons = {}
    def _is_alg(cc):
        x = cc[1] if cc[0] == "discr" else None
        while isinstance(x, tuple) and x and x[0] in ("ref", "deref", "cast"):
            x = x[2] if x[0] == "cast" else x[1]
        return isinstance(x, tuple) and x and ((x[0] == "field" and x[2] == "algorithm") or
                                               (x[0] in ("param", "local") and "alg" in (x[2] or "")))
    for (p_, s_, cc, v) in sym.edge_facts():
        if _is_alg(cc):
            if isinstance(v, int) and not isinstance(v, bool):
                cons.setdefault((p_, s_), []).append(frozenset({v}))
            elif isinstance(v, tuple) and v and v[0] == "not":
                cons.setdefault((p_, s_), []).append(allv - set(v[1]))
    IN = {0: allv}
    work = [0]
    while work:
        b = work.pop()
        if f.blocks[b]["c"]:
            continue
        for nx in f.succ[b]:
            out = IN[b]
            for vs in cons.get((b, nx), []):
                out = out & vs
            old = IN.get(nx)
            new = out if old is None else (old | out)
            if new != old:
                IN[nx] = new
                work.append(nx)
    for i, c in enumerate(calls):
        facts = sym.facts_at(c.bb)
        on_nearest = alpha_off = False
        other = None
        possible = IN.get(c.bb, allv)
        if possible and possible != allv:
            if all(v in nearest for v in possible):
                on_nearest = True
            else:
                other = "/".join(sorted(str(variants.get(v, v)) for v in possible if v not in nearest))
        for cc, v in facts:
            if (_mentions_param(cc, "use_alpha") or "mul_div_alpha" in fmt(cc)) and v is False \
                    and cc[0] != "bin":
                alpha_off = True
        key = "resample_nearest#%d" % i
        if on_nearest or alpha_off:
            rep.ok(rule, key, c.at, "on the Nearest edge" if on_nearest else "alpha handling off")
        elif other is not None:
            rep.bad(rule, "resample_nearest|%s" % other, c.at,
                    "ResizeAlg::%s is routed to resample_nearest, which never premultiplies / divides: "
                    "with alpha handling on, colours stored under transparent source pixels reach the "
                    "destination" % other)
        else:
            rep.unk(rule, key, c.at, "which algorithm reaches this call is not determined")


def supersampling_alpha(rep, prog, rule):
    rep.rule(rule, "resample_super_sampling hands its destination only to resample_convolution with its own "
             "use_alpha flag (the premultiply / divide pipeline lives there): any other call that receives "
             "dst_view - a nearest-neighbour or copy shortcut - writes the result without the alpha step "
             "unless it is guarded by use_alpha being false")
    fs = [f for f in prog.fns.values() if f.name.endswith("Resizer::resample_super_sampling")]
    if len(fs) != 1:
        rep.unk(rule, "resample_super_sampling|anchor", "", "%d candidates" % len(fs))
        return
    f = fs[0]
    rep.touch(f)
    sym = Sym(f)
    pd = f.param_by_role("dst_view")
    pa = f.param_index("use_alpha")
    if pd is None or pa is None:
        rep.unk(rule, "resample_super_sampling|params", f.loc, "dst_view / use_alpha parameters not found")
        return
    dst = ("param", pd, f.local_name(pd) if pd else "dst_view")
    ua = ("param", pa, "use_alpha")
    n = 0

    def mentions(e, a):
        if e == a:
            return True
        return isinstance(e, tuple) and any(mentions(x, a) for x in e if isinstance(x, tuple))
    for c in f.calls():
        args = [sym.operand(a, (c.bb, "term")) for a in c.args]
        def is_view(a):
            for _ in range(6):
                if isinstance(a, tuple) and a and a[0] in ("cast", "ref", "deref", "reborrow"):
                    a = a[2] if a[0] == "cast" else a[1]
                else:
                    break
            return a == dst
        if not any(is_view(a) for a in args):
            continue
        nm = c.method or c.name.rsplit("::", 1)[-1]
        if nm in ("width", "height", "deref", "deref_mut", "pixel_type"):
            continue
        n += 1
        key = "resample_super_sampling|%s" % nm
        if nm == "resample_convolution":
            if args and args[-1] == ua:
                rep.ok(rule, key + "|%d" % n, c.at, "destination written by resample_convolution(.., use_alpha)")
            else:
                rep.bad(rule, key + "|flag", c.at, "resample_convolution is called with %s instead of the "
                        "caller's use_alpha" % (fmt(args[-1]) if args else "?"))
            continue
        facts = sym.facts_at(c.bb)
        if any((cond == ua and val is False) or
               (cond[0] == "un" and cond[1] == "Not" and cond[2] == ua and val is True) for cond, val in facts):
            rep.ok(rule, key + "|no-alpha", c.at, "%s writes the destination only when use_alpha is false" % nm)
        else:
            rep.bad(rule, key + "|alpha-skipped", c.at,
                    "resample_super_sampling passes its destination to %s: on that path the image is "
                    "written without premultiplying / dividing by alpha although use_alpha may be set "
                    "(transparent pixels keep their hidden colour)" % nm)
    rep.floor(rule, "calls that receive the destination of resample_super_sampling", n, 2)


def run(rep, tier):
    cfgs = ["x86"] if tier == "quick" else ["x86", "x86-rayon", "arm", "wasm"]
    for cfg, prog in programs(cfgs):
        rep.set_cfg(cfg)
        rep.call(pipeline, rep, prog, "C07.pipeline")
        rep.call(nearest_no_alpha, rep, prog, "C07.nearest-no-alpha")
        rep.call(alpha_less_routes, rep, prog, "C07.alpha-less-routes")
        rep.call(alpha_rules.alpha_set, rep, prog, "C07.alpha-set")
        rep.call(simd_rules.lane_bypass, rep, prog, "C07.lane-bypass")
        rep.call(alpha_rules.zero_guard, rep, prog, "C07.zero-guard")
        rep.call(supersampling_alpha, rep, prog, "C07.supersampling-alpha")
        from ..engines import siblings
        rep.call(siblings.forwarded_args, rep, prog, "C07.forwarded-options")
        from . import c09
        rep.call(c09.sizing, rep, prog, "C07.premultiply-whole")
        rep.call(c09.write_before_read, rep, prog, "C07.premultiply-before-read")
        # the raw copy skips premultiply / divide: it must be taken for the exact identity only
        from . import c12
        rep.call(c12.copy_cond, rep, prog, "C07.copy-cond")
        from ..engines import row_coverage
        from ..engines import simd_rules as _sr
        rep.call(_sr.float_alpha_unsaturated, rep, prog, "C07.float-unsaturated")
        # the premultiplied copy is complete: the scalar tail of a chunked row routine treats all
        # remaining pixels (else the last columns of the scratch image keep stale premultiplied data)
        rep.call(row_coverage.tail_complete, rep, prog, "C07.tail-complete")
        rep.call(row_coverage.divide_every_chunk, rep, prog, "C07.divide-every-chunk",
                 {"x86": 12, "x86-rayon": 12, "wasm": 2}.get(cfg, 0))
