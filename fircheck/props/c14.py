"""C14 — splitting a view yields an exact, ordered, non-overlapping tiling (clauses)."""
import re
from ..cfg import Dom, loop_blocks
from ..engines import index_rules, ranges, witness
from ..engines.validators import closure_return, subst
from ..facts import CheckError
from ..progs import programs
from ..sym import Sym, atoms, fmt, short
from . import c03

SPLITS = {"split_by_height": "height", "split_by_width": "width",
          "split_by_height_mut": "height", "split_by_width_mut": "width"}
START = {"height": "start_row", "width": "start_col"}
POS_FIELD = {"height": "top", "width": "left"}


def canon(e):
    """NonZero values and their .get() are the same quantity; drop widening casts"""
    while isinstance(e, tuple) and e:
        if e[0] == "cast":
            e = e[2]
        elif e[0] == "call" and e[1] == "get" and e[2]:
            e = e[2][0]
        else:
            break
    if isinstance(e, tuple):
        return tuple(canon(x) if isinstance(x, tuple) else x for x in e)
    return e


def resolve_capture(prog, g, idx, depth=0):
    """the value closure g captures as its idx-th upvar, as an expression of the outermost
    enclosing function (through nested closures); None when not resolved"""
    parent = prog.fns.get(g.d.get("parent"))
    if parent is None or depth > 4:
        return None
    ps = Sym(parent)
    for b, blk in enumerate(parent.blocks):
        if blk["c"]:
            continue
        for j, st in enumerate(blk["s"]):
            if st[0] == "a" and st[2][0] == "agg" and st[2][1] == "closure" and st[2][2] == g.id:
                ops = st[2][4]
                if idx >= len(ops):
                    return None
                e = ps.operand(ops[idx], (b, j))
                for _ in range(6):
                    if e[0] in ("ref", "deref"):
                        e = e[1]
                    elif e[0] == "cast":
                        e = e[2]
                    else:
                        break
                e = canon(e)
                if parent.kind == "closure" and e[0] == "field" and e[1][0] == "param" and e[1][1] == 1 \
                        and isinstance(e[2], int):
                    return resolve_capture(prog, parent, e[2], depth + 1)
                return e
    return None


def split_impls(prog):
    out = []
    for tr in ("image_view::ImageView", "image_view::ImageViewMut"):
        tid = prog.trait_id(tr)
        for m in SPLITS:
            tm = prog.traits[tid]["methods"].get(m)
            if not tm:
                continue
            if tm["default"] and tm["id"] in prog.fns:
                out.append((prog.fns[tm["id"]], m, "default"))
            for imp in prog.impls_of(tid):
                mid = imp["methods"].get(m)
                if mid and mid in prog.fns:
                    out.append((prog.fns[mid], m, imp["self_ty"]))
    return out


def is_delegation(f, m, sym):
    """the body returns the same method of an inner view with the same arguments"""
    defs = f.defs().get(0, [])
    if len(defs) != 1 or defs[0][2][0] != "callret":
        return False
    c = defs[0][2][1]
    if c.method != m:
        return False
    args = [sym.operand(a) for a in c.args[1:]]
    want = [("param", i, f.local_name(i)) for i in range(2, f.arg_count + 1)]
    return args == want


def guards(rep, prog, rule):
    rep.rule(rule, "a split returns parts only on paths where num_parts <= size, size <= the "
             "view's extent on the split axis and start <= extent - size have been established "
             "(or it delegates to the same method of an inner view with the same arguments)")
    impls = split_impls(prog)
    rep.floor(rule, "split implementations", len(impls), 17)
    for f, m, who in impls:
        rep.touch(f)
        sym = Sym(f)
        axis = SPLITS[m]
        key = f.name
        if is_delegation(f, m, sym):
            rep.ok(rule, key, f.loc, "delegates to inner.%s with the same arguments" % m)
            continue
        size = canon(("param", f.param_index(axis) or -1, axis))
        parts = canon(("param", f.param_index("num_parts") or -1, "num_parts"))
        start = ("param", f.param_index(START[axis]) or -1, START[axis])
        if -1 in (size[1], parts[1], start[1]):
            rep.unk(rule, key, f.loc, "parameters (%s, %s, num_parts) not found" % (START[axis], axis))
            continue
        # non-None definitions of the return place
        some_blocks = []
        for (bb, j, rv, whole) in f.defs().get(0, []):
            if rv[0] == "agg" and rv[1] == "adt" and rv[3] and rv[3][1] == "None":
                continue
            if rv[0] == "callret" and "from_residual" in str(rv[1]):
                continue            # `?` passing a None on
            some_blocks.append(bb)
        if not some_blocks:
            rep.unk(rule, key, f.loc, "no Some return found")
            continue
        missing = set()
        unknown_forms = set()
        wrong_axis = []
        for bb in some_blocks:
            nf = []
            for cond, val in sym.facts_at(bb):
                if cond[0] == "bin" and cond[1] in ranges.FLIP and isinstance(val, bool):
                    op = cond[1] if val else ranges.NEG[cond[1]]
                    nf.append((op, canon(cond[2]), canon(cond[3])))

            def le(a, pred_b):
                for (op, x, y) in nf:
                    for (o, l, r) in ((op, x, y), (ranges.FLIP[op], y, x)):
                        if o in ("Le", "Lt") and l == a and pred_b(r):
                            return r
                return None

            def extent(e, ax=axis):
                # self.height() or, for the views that store it, the field self.height
                if e[0] == "field" and e[2] == ax and e[1][0] == "param" and e[1][1] == 1:
                    return True
                return e[0] == "call" and e[1] == ax and e[2] and e[2][0][0] == "param" \
                    and e[2][0][1] == 1

            def other_extent(e):
                return extent(e, "width" if axis == "height" else "height")
            if le(parts, lambda r: r == size) is None:
                missing.add("num_parts <= %s" % axis)
            if le(size, extent) is None:
                if le(size, other_extent) is not None:
                    wrong_axis.append("%s is compared with the view's other dimension" % axis)
                missing.add("%s <= self.%s()" % (axis, axis))
            g3 = le(start, lambda r: r[0] == "bin" and r[1] == "Sub" and extent(r[2])
                    and r[3] == size) is not None
            if not g3:
                # equivalent form: start + size <= extent (a wrapping sum is C14.arith's business)
                for (op, x, y) in nf:
                    for (o, l, r) in ((op, x, y), (ranges.FLIP[op], y, x)):
                        if o in ("Le", "Lt") and extent(r) and l[0] == "bin" and l[1] == "Add" \
                                and {l[2], l[3]} == {start, size}:
                            g3 = True
            if not g3:
                related = any(ranges.mentions(("x", a, b), start) and
                              (ranges.mentions(("x", a, b), size) or "%s(" % axis in fmt(("bin", op, a, b)))
                              for (op, a, b) in nf)
                if related:
                    unknown_forms.add("%s vs %s" % (START[axis], axis))
                else:
                    missing.add("%s <= self.%s() - %s" % (START[axis], axis, axis))
        if not missing and unknown_forms:
            rep.unk(rule, key, f.loc, "a guard relates %s in an unrecognised form" % sorted(unknown_forms))
        elif not missing:
            rep.ok(rule, key, f.loc, "all three guards dominate the Some return")
        else:
            for g in sorted(missing):
                rep.bad(rule, "%s|%s" % (key, g), f.loc, "%s returns parts without `%s` having "
                        "been established%s" % (f.name, g, (" (" + wrong_axis[0] + ")")
                                                if wrong_axis else ""))


def count(rep, prog, rule):
    rep.rule(rule, "loop-based splits push exactly one part per iteration of a 0..num_parts loop; "
             "wrapping splits map the inner parts one-to-one")
    n = 0
    for f, m, who in split_impls(prog):
        sym = Sym(f)
        if is_delegation(f, m, sym):
            continue
        n += 1
        rep.touch(f)
        pushes = [c for c in f.calls() if c.name.endswith("Vec::<T, A>::push") or
                  c.name.endswith("::push")]
        key = f.name
        if pushes:
            dom = Dom(f)
            loops = loop_blocks(f, dom)
            ok_all = True
            if len(pushes) != 1:
                rep.bad(rule, key, f.loc, "%d push calls in the split loop" % len(pushes))
                continue
            p = pushes[0]
            hdrs = [h for h, body in loops.items() if p.bb in body]
            if len(hdrs) != 1:
                rep.unk(rule, key, p.at, "push is inside %d loops" % len(hdrs))
                continue
            h = hdrs[0]
            body = loops[h]
            # every back edge source is dominated by the push block
            latches = [b for b in body if h in f.succ[b]]
            if not all(dom.dominates(p.bb, b) for b in latches):
                rep.bad(rule, key, p.at, "an iteration of the split loop can skip the push")
                continue
            # loop range is 0..num_parts
            rng = None
            for c in f.calls():
                if c.bb in body and c.method == "next":
                    it = sym.operand(c.args[0])
                    from ..engines.intervals import Intervals
                    # chase to the Range aggregate
                    e = it
                    for _ in range(8):
                        if e[0] == "local":
                            ds = [d for d in sym.defs.get(e[1], []) if d[3]]
                            if len(ds) != 1:
                                break
                            e = sym.rvalue(ds[0][2], ds[0][0])
                        elif e[0] in ("callat", "call") and (e[2] if e[0] == "callat" else e[1]) == "into_iter":
                            e = (e[3] if e[0] == "callat" else e[2])[0]
                        else:
                            break
                    if e[0] == "agg" and e[2].endswith("ops::range::Range"):
                        rng = e
                    elif e[0] in ("call", "callat") and (e[2] if e[0] == "callat" else e[1]) == "new" and \
                            "RangeInclusive" in (e[5] if e[0] == "callat" else e[4]):
                        a_ = e[3] if e[0] == "callat" else e[2]
                        # a..=b  has the iterations of a..b+1
                        rng = ("agg", "adt", "ops::range::Range", None,
                               (a_[0], ("bin", "Add", a_[1], ("const", 1, "u32"))))
            np_ = ("param", f.param_index("num_parts"), "num_parts")
            trips = None
            if rng:
                from ..engines.ranges import strip_widen
                lo, hi = strip_widen(rng[4][0]), rng[4][1]
                if lo[0] == "const" and isinstance(lo[1], int):
                    # hi - lo as a linear form in num_parts
                    from ..engines.poly import Poly, equal
                    P = Poly(sym)
                    trips = P.norm(canon(("bin", "Sub", hi, ("const", lo[1], "u32"))))
                    want_ = P.norm(canon(np_))
            if trips is not None and equal(trips, want_):
                rep.ok(rule, key, p.at, "one push per iteration of a loop with num_parts iterations (%s)" % fmt(rng)[:60])
            elif trips is not None:
                rep.bad(rule, key, p.at, "the split loop iterates over %s: not num_parts iterations" % fmt(rng)[:80])
            else:
                rep.unk(rule, key, p.at, "iteration space of the split loop not recognised")
        else:
            rv = f.defs().get(0, [])
            maps = [c for c in f.calls() if c.name.endswith("Option::<T>::map")]
            if maps:
                rep.ok(rule, key, f.loc, "maps the inner split's parts one-to-one")
            else:
                rep.unk(rule, key, f.loc, "neither a push loop nor a map over inner parts")
    rep.floor(rule, "non-delegating splits", n, 13)


def _lower_bounds(f, sym, e, depth=0, seen=None):
    """the summands of the lower bound of a slice expression relative to the image's pixel
    storage: slicing [a..b] / [a..] adds a, split_at(s, k).1 adds k, [..b] and .0 add nothing;
    a loop-carried slice variable contributes the bounds of all its definitions. None = unknown"""
    seen = seen if seen is not None else set()
    if depth > 24 or not isinstance(e, tuple) or not e:
        return None
    while e[0] == "cast":
        e = e[2]
    if e[0] in ("ref", "deref"):
        return _lower_bounds(f, sym, e[1], depth + 1, seen)
    if e[0] == "field":
        base = e[1]
        while base[0] == "cast":
            base = base[2]
        if base[0] in ("call", "callat"):
            nm = base[2] if base[0] == "callat" else base[1]
            args = base[3] if base[0] == "callat" else base[2]
            if nm in ("split_at", "split_at_mut", "split_at_unchecked", "split_at_mut_unchecked") and len(args) == 2:
                inner = _lower_bounds(f, sym, args[0], depth + 1, seen)
                if inner is None:
                    return None
                return inner + ([args[1]] if e[2] in (1, "1") else [])
        if base[0] == "param" and isinstance(e[2], str):
            return []           # self.pixels: the storage itself
        return None
    if e[0] in ("call", "callat"):
        nm = e[2] if e[0] == "callat" else e[1]
        args = e[3] if e[0] == "callat" else e[2]
        if nm in ("index", "index_mut", "get_unchecked", "get_unchecked_mut") and len(args) == 2:
            inner = _lower_bounds(f, sym, args[0], depth + 1, seen)
            if inner is None:
                return None
            r = args[1]
            while r[0] == "cast":
                r = r[2]
            if r[0] == "agg":
                nm2 = str(r[2])
                if nm2.endswith("RangeTo") or nm2.endswith("RangeFull") or nm2.endswith("RangeToInclusive"):
                    return inner
                if (nm2.endswith("Range") or nm2.endswith("RangeFrom") or nm2.endswith("RangeInclusive")) and r[4]:
                    return inner + [r[4][0]]
            return None
        if nm in ("borrow", "borrow_mut", "deref", "deref_mut", "as_ref", "as_mut", "as_slice",
                  "as_mut_slice") and args:
            return _lower_bounds(f, sym, args[0], depth + 1, seen)
        return None
    if e[0] == "local":
        if e[1] in seen:
            return []
        seen = seen | {e[1]}
        out = []
        ds = sym.defs.get(e[1], [])
        if not ds:
            return None
        for (bb, j, rv, whole) in ds:
            if not whole:
                return None
            r = _lower_bounds(f, sym, sym.rvalue(rv, bb, (bb, j)), depth + 1, seen)
            if r is None:
                return None
            out += r
        return out
    if e[0] == "param":
        return []
    return None


def band_start(rep, prog, rule):
    rep.rule(rule, "the slice-based splits (TypedImageRef / TypedImage, by height) cut every part out of "
             "the pixel storage at an offset that includes the requested start row: the lower bound of the "
             "slice handed to the part constructor - summed over split_at(..).1, [a..b] and [a..] steps, "
             "through the loop-carried rest slice - depends on start_row; parts whose offset is computed "
             "from the part index alone expose rows 0.. of the image instead of the requested band")
    n = 0
    for f, m, who in split_impls(prog):
        if not (who.startswith("images::typed_image::TypedImage") and m.startswith("split_by_height")):
            continue
        sym = Sym(f)
        ctor = [c for c in f.calls() if c.name.endswith("TypedImageRef::<'a, P>::new")
                or c.name.endswith("from_pixels_slice")]
        if len(ctor) != 1:
            continue
        n += 1
        rep.touch(f)
        c = ctor[0]
        px = sym.operand(c.args[2], (c.bb, "term"))
        lbs = _lower_bounds(f, sym, px)
        key = f.name
        if lbs is None:
            rep.unk(rule, key, c.at, "lower bound of the part's pixel slice not followed: %s" % fmt(px)[:100])
            continue
        txt = " + ".join(fmt(x)[:60] for x in lbs) or "0"
        dep = False
        for x in lbs:
            s = fmt(x)
            if "start_row" in s:
                dep = True
            # `top` is initialised with start_row
            for a in atoms(x):
                if a[0] == "local" and f.local_name(a[1]) == "top":
                    for (bb, j, rv, w) in sym.defs.get(a[1], []):
                        if "start_row" in fmt(sym.rvalue(rv, bb, (bb, j))):
                            dep = True
        if dep:
            rep.ok(rule, key, c.at, "parts start at %s" % txt[:120])
        else:
            rep.bad(rule, key + "|start-row-ignored", c.at,
                    "%s: the parts are cut at offset %s, which does not depend on start_row: a split of the "
                    "band [start_row, start_row + height) returns the rows [0, height)" % (f.name, txt[:160]))
    rep.floor(rule, "slice-based splits by height", n, 3)


def _opaque(prog, e):
    if not isinstance(e, tuple) or not e:
        return False
    if e[0] in ("call", "callat"):
        res = e[4] if e[0] == "callat" else e[3]
        if isinstance(res, str) and res in prog.fns:
            return True
    return any(_opaque(prog, x) for x in e if isinstance(x, tuple))


def offsets(rep, prog, rule):
    rep.rule(rule, "a cropped view forwards (start + own offset on the split axis, size, "
             "num_parts) to the wrapped view's split and re-wraps every part with its own offset "
             "and extent on the other axis and the part's extent on the split axis; slice-based "
             "splits cut rows of self.width pixels")
    n = 0
    for f, m, who in split_impls(prog):
        if "TypedCroppedImage" not in who:
            continue
        n += 1
        rep.touch(f)
        sym = Sym(f)
        axis = SPLITS[m]
        key = f.name
        inner = [c for c in f.calls() if c.method == m]
        if len(inner) != 1:
            rep.unk(rule, key, f.loc, "%d inner %s calls" % (len(inner), m))
            continue
        c = inner[0]
        from ..engines.validators import resolve_helpers
        a_start = canon(resolve_helpers(prog, sym.operand(c.args[1])))
        a_size = canon(resolve_helpers(prog, sym.operand(c.args[2])))
        a_parts = canon(resolve_helpers(prog, sym.operand(c.args[3])))
        start = ("param", f.param_index(START[axis]), START[axis])
        own = ("field", ("param", 1, "self"), POS_FIELD[axis])
        other = ("field", ("param", 1, "self"), POS_FIELD["width" if axis == "height" else "height"])
        okk = (a_start[0] == "bin" and a_start[1] == "Add" and
               {a_start[2], a_start[3]} == {start, own})
        if okk and a_size == canon(("param", f.param_index(axis), axis)) and \
                a_parts == canon(("param", f.param_index("num_parts"), "num_parts")):
            rep.ok(rule, key + "|forward", c.at, "inner.%s(%s, %s, %s)" % (
                m, fmt(a_start), fmt(a_size), fmt(a_parts)))
        elif a_start[0] == "bin" and a_start[1] == "Add" and {a_start[2], a_start[3]} == {start, other}:
            rep.bad(rule, key + "|forward", c.at, "the inner split starts at %s: offset of the "
                    "wrong axis" % fmt(a_start))
        elif a_start == start:
            rep.bad(rule, key + "|forward", c.at, "the inner split starts at %s without the "
                    "view's own offset self.%s" % (fmt(a_start), POS_FIELD[axis]))
        elif any(_opaque(prog, x) for x in (a_start, a_size, a_parts)):
            rep.unk(rule, key + "|forward", c.at, "inner.%s(%s, ..) is computed by a helper that was not "
                    "resolved to an expression (C14.start-used still demands that the start reaches "
                    "it)" % (m, fmt(a_start)[:80]))
        else:
            rep.bad(rule, key + "|forward", c.at, "inner.%s(%s, %s, %s) does not forward "
                    "(start + self.%s, %s, num_parts)" % (m, fmt(a_start), fmt(a_size),
                                                          fmt(a_parts), POS_FIELD[axis], axis))
        # re-wrapping closure: find the constructor call in nested closures
        ctor = None
        stack = list(f.closures())
        while stack:
            g = stack.pop()
            stack.extend(g.closures())
            for cc in g.calls():
                if cc.name.endswith("::new") and "TypedCroppedImage" in cc.name:
                    ctor = (g, cc)
        if ctor is None:
            rep.unk(rule, key + "|rewrap", f.loc, "constructor of the wrapped parts not found")
            continue
        g, cc = ctor
        gs = Sym(g)
        args = [canon(gs.operand(a)) for a in cc.args]

        caps = g.d.get("captures", [])

        def is_cap_field(e, name):
            if e[0] != "field":
                return False
            if e[2] == name:
                return True
            if isinstance(e[2], int) and e[1][0] == "param" and e[1][1] == 1 and e[2] < len(caps):
                if caps[e[2]][0].endswith("self." + name):
                    return True
                # a local of the method captured by value: what it holds there
                r = resolve_capture(prog, g, e[2])
                return r is not None and r[0] == "field" and r[2] == name and r[1][0] == "param" \
                    and r[1][1] == 1
            return False

        def part_extent(e, ax):
            return e[0] == "call" and e[1] == ax
        if axis == "height":
            want = (is_cap_field(args[1], "left") and args[2] == ("const", 0, "u32")
                    and is_cap_field(args[3], "width") and part_extent(args[4], "height"))
        else:
            want = (args[1] == ("const", 0, "u32") and is_cap_field(args[2], "top")
                    and part_extent(args[3], "width") and is_cap_field(args[4], "height"))
        if want:
            rep.ok(rule, key + "|rewrap", cc.at, "new(part, %s)" % ", ".join(fmt(a) for a in args[1:]))
        else:
            rep.bad(rule, key + "|rewrap", cc.at, "parts are re-wrapped with (left, top, width, "
                    "height) = (%s)" % ", ".join(fmt(a) for a in args[1:]))
    rep.floor(rule, "cropped split implementations", n, 6)
    # slice based
    k = 0
    for f, m, who in split_impls(prog):
        if not (who.startswith("images::typed_image::TypedImage") and m.startswith("split_by_height")):
            continue
        k += 1
        rep.touch(f)
        sym = Sym(f)
        key = f.name
        sp = [c for c in f.calls() if "split_at" in c.name]
        ctor = [c for c in f.calls() if c.name.endswith("TypedImageRef::<'a, P>::new")
                or c.name.endswith("from_pixels_slice")]
        wfield = ("field", ("param", 1, "self"), "width")
        bad = None
        unresolved = None
        for c in sp:
            mid = canon(sym.operand(c.args[1], (c.bb, "term")))
            if mid[0] == "bin" and mid[1] == "Mul":
                if wfield not in (mid[2], mid[3]):
                    bad = "split_at(%s) is not a multiple of self.width" % fmt(mid)
            else:
                unresolved = "split_at(%s)" % fmt(mid)[:60]      # a value computed elsewhere
        for c in ctor:
            a0 = canon(sym.operand(c.args[0], (c.bb, "term")))
            if a0 == wfield:
                continue
            if a0[0] == "field" and a0[1] == ("param", 1, "self"):
                bad = "part constructed with width %s" % fmt(a0)
            else:
                unresolved = "part width %s" % fmt(a0)[:60]
        if len(sp) < 2 or len(ctor) != 1:
            rep.unk(rule, key + "|slices", f.loc, "split_at=%d ctor=%d" % (len(sp), len(ctor)))
        elif bad:
            rep.bad(rule, key + "|slices", f.loc, bad)
        elif unresolved:
            rep.unk(rule, key + "|slices", f.loc, "%s not resolved to rows of self.width pixels" % unresolved)
        else:
            rep.ok(rule, key + "|slices", f.loc, "rows of self.width pixels")
    rep.floor(rule, "slice-based splits", k, 3)


def aliasing(rep, prog, rule):
    rep.rule(rule, "UnsafeImageMut (raw aliasing handle) is created only in the two default "
             "split_by_*_mut methods, each clone is consumed by TypedCroppedImageMut::new in the "
             "same loop iteration, and it is the only type with `unsafe impl Send/Sync`")
    news = []
    for f in prog.fns.values():
        for c in f.calls():
            if c.name.endswith("UnsafeImageMut::<'a, V>::new"):
                news.append((f, c))
    allowed = tuple(prog.fn_by_name(n).name for n in
                    ("image_view::ImageViewMut::split_by_height_mut",
                     "image_view::ImageViewMut::split_by_width_mut"))
    rep.floor(rule, "UnsafeImageMut::new call sites", len(news), 2)
    for f, c in news:
        if f.name in allowed:
            rep.ok(rule, "new|%s" % f.name, c.at, "created inside the default split")
        else:
            rep.bad(rule, "new|%s" % f.name, c.at, "UnsafeImageMut::new is called from %s: a "
                    "second aliasing handle of a mutable view outside the splits" % f.name)
    for name in allowed:
        f = prog.fn_by_name(name)
        rep.touch(f)
        sym = Sym(f)
        clones = [c for c in f.calls() if c.method == "clone" and "UnsafeImageMut" in str(c.targs())]
        ctors = [c for c in f.calls() if c.name.endswith("TypedCroppedImageMut::<'a, V>::new")]
        if len(clones) == 1 and len(ctors) == 1:
            a0 = sym.operand(ctors[0].args[0])
            src = sym.operand(clones[0].args[0])
            if (a0[0] == "callat" and a0[1] == clones[0].bb) or (
                    a0[0] == "call" and a0[1] == "clone" and a0[2] and a0[2][0] == src):
                rep.ok(rule, "clone|%s" % name, clones[0].at, "clone consumed by the part's constructor")
            else:
                rep.bad(rule, "clone|%s" % name, ctors[0].at, "the part is built from %s, not "
                        "from the clone made in this iteration" % fmt(a0))
        else:
            # other shapes (e.g. the parts are built inside a closure): looked at by `positions`
            rep.unk(rule, "clone|%s" % name, f.loc, "clones=%d constructors=%d in %s: shape of "
                    "the split not recognised" % (len(clones), len(ctors), name))
    unsafe_marker = [i for i in prog.impls if i.get("unsafe") and
                     i.get("trait", "").endswith(("marker::Send", "marker::Sync"))]
    for i in unsafe_marker:
        if "UnsafeImageMut" in i["self_ty"]:
            rep.ok(rule, "marker|%s" % i["trait_ref"], i["at"], "unsafe impl for UnsafeImageMut")
        else:
            rep.bad(rule, "marker|%s" % i["trait_ref"], i["at"], "unsafe impl %s" % i["trait_ref"])


def positions(rep, prog, rule):
    rep.rule(rule, "every part a split builds itself (constructor call with an explicit position on "
             "the split axis) is placed at a running sum of the sizes of the parts before it "
             "(an accumulator that starts at the start argument and grows by each part's size); a "
             "position computed as start + index * own_size, where the size differs between parts "
             "(the first size %% n parts are one larger), overlaps the previous part and leaves "
             "the end of the band uncovered")
    n = 0
    for f, m, who in split_impls(prog):
        fs = [f] + list(f.closures())
        axis = SPLITS[m]
        for g in fs:
            gs = Sym(g)
            for c in g.calls():
                if not re.search(r"TypedCroppedImage(Mut)?::<'a, V>::(new|from_ref|from_mut_ref)$", c.name) \
                        and not re.search(r"(TypedImageRef|TypedImage)::<'a, P>::(new|from_pixels_slice)$", c.name):
                    continue
                if len(c.args) < 5 or "TypedCroppedImage" not in c.name:
                    continue
                n += 1
                rep.touch(f)
                pos = gs.operand(c.args[2 if axis == "height" else 1], (c.bb, "term"))
                size = gs.operand(c.args[4 if axis == "height" else 3], (c.bb, "term"))
                key = "%s|position" % f.name
                p0 = pos
                while p0[0] in ("cast", "ovf"):
                    p0 = p0[2] if p0[0] == "cast" else p0[1]
                s = fmt(p0)
                if p0[0] == "local":
                    # accumulator: defs = {start, acc + size}
                    defs = [gs.rvalue(rv, bb, (bb, j)) for (bb, j, rv, w) in g.defs().get(p0[1], [])]
                    adds = [d for d in defs if "Add" in fmt(d) and fmt(p0) in fmt(d)]
                    if adds and len(defs) >= 2:
                        rep.ok(rule, key, c.at, "position is the accumulator %s" % s)
                    else:
                        rep.unk(rule, key, c.at, "position %s" % s)
                    continue
                if g is f and p0[0] in ("param", "field", "bin") and "Mul" not in s:
                    rep.ok(rule, key, c.at, "position %s (delegating wrapper)" % s[:80], nontrivial=False)
                    continue
                # start + i * size ?
                mul = None

                def find_mul(x):
                    nonlocal mul
                    if isinstance(x, tuple) and x:
                        if x[0] == "bin" and x[1] == "Mul":
                            mul = x
                        for y in x:
                            if isinstance(y, tuple):
                                find_mul(y)
                find_mul(p0)
                if mul is not None:
                    factors = [mul[2], mul[3]]
                    sized = [x for x in factors if fmt(x) == fmt(size) or
                             (x[0] == "local" and len(gs.defs.get(x[1], [])) >= 2)]
                    if sized:
                        rep.bad(rule, key + "|index-times-size", c.at, "%s places part i at %s, i.e. "
                                "index times the part's own size, but the parts are not equally large "
                                "(the first size %% n parts get one more): from part size %% n on the "
                                "position is too small, the part overlaps its predecessor and the end "
                                "of the band is covered by no part" % (f.name, s[:100]))
                        continue
                rep.unk(rule, key, c.at, "position %s: not an accumulator" % s[:100])
    rep.floor(rule, "part constructors with explicit positions", n, 4)


def sizes(rep, prog, rule, siblings=False):
    rep.rule(rule, "a split that builds its parts itself sizes them from the floor quotient "
             "size / parts and hands the size % parts surplus rows out one by one (sizes differ "
             "by at most one, no part is empty because parts <= size); a step rounded up "
             "(div_ceil, (size + parts - 1) / parts) makes the parts larger than that: the last "
             "ones are shorter by more than one or empty (10 rows in 6 parts: 2,2,2,2,2,0), and "
             "an empty part makes the cropped wrappers' constructor fail. A split with no "
             "division by the number of parts (and no delegation) is undecided")
    n = 0
    for f, m, who in split_impls(prog):
        sym = Sym(f)
        if is_delegation(f, m, sym):
            continue
        fs = [f] + list(f.closures())
        divs, rems, ceils = [], [], []
        for g in fs:
            gs = sym if g is f else Sym(g)
            for b, blk in enumerate(g.blocks):
                if blk["c"]:
                    continue
                for j, st in enumerate(blk["s"]):
                    if st[0] == "a" and st[2][0] == "bin" and st[2][1] in ("Div", "Rem"):
                        e = gs.rvalue(st[2], b, (b, j))
                        if g.kind == "closure":
                            e = _with_captures(prog, g, e)
                        den = fmt(e[3])
                        if "num_parts" in den or "parts" in den:
                            num = e[2]
                            while num[0] in ("cast", "ovf"):
                                num = num[2] if num[0] == "cast" else num[1]
                            if st[2][1] == "Rem":
                                rems.append((e, st[3]))
                            elif num[0] == "bin" and num[1] in ("Add", "Sub") and \
                                    ("num_parts" in fmt(num) or "parts" in fmt(num)):
                                ceils.append((e, st[3]))       # (size + parts - 1) / parts
                            else:
                                divs.append((e, st[3]))
            for c in g.calls():
                nm = c.method or c.name.rsplit("::", 1)[-1]
                if nm in ("div_ceil", "next_multiple_of") and len(c.args) == 2:
                    a1 = fmt(gs.operand(c.args[1], (c.bb, "term")))
                    if "parts" in a1:
                        ceils.append((gs.call_expr(c, (c.bb, "term")), c.at))
        if not (divs or rems or ceils):
            continue            # wrappers that re-wrap the parts of an inner split
        n += 1
        rep.touch(f)
        key = f.name
        if ceils:
            e, at = ceils[0]
            rep.bad(rule, key + "|step-rounded-up", at,
                    "%s sizes its parts with %s, a quotient rounded up: the parts before the last "
                    "take more than their share, the last ones are more than one row shorter or "
                    "empty (10 rows / 6 parts: 2,2,2,2,2,0)" % (f.name, fmt(e)[:80]))
        elif divs and not rems and any(_is_index_times_size(e) for e, _ in divs):
            # boundaries i * size / parts: balanced as well, but the surplus goes to the LAST parts
            if siblings:
                e, at = [d for d in divs if _is_index_times_size(d[0])][0]
                rep.bad(rule, key + "|other-distribution", at,
                        "%s places its parts at the boundaries %s: the sizes differ by at most one, but "
                        "the larger parts come last, while every other split of the crate (the mutable "
                        "one of the same view included) gives the surplus rows to the first parts: source "
                        "and destination bands that are split separately and zipped no longer match "
                        "(103 rows in 4 parts: 25,26,26,26 against 26,26,26,25)" % (f.name, fmt(e)[:70]))
            else:
                rep.ok(rule, key, divs[0][1], "boundaries %s (sizes differ by at most one)" % fmt(divs[0][0])[:60])
        elif divs and rems and _step_reassigned(f):
            l_, at_ = _step_reassigned(f)
            rep.bad(rule, key + "|step-reassigned", at_,
                    "%s computes the step as size / parts and then assigns `%s` again: the sizes of the "
                    "parts are no longer the balanced ones every other split of the crate produces "
                    "(the immutable and the mutable split of one view are zipped band by band)" % (
                        f.name, f.local_name(l_) or "_%d" % l_))
        elif divs and rems:
            rep.ok(rule, key, divs[0][1], "step %s, surplus %s" % (fmt(divs[0][0])[:50], fmt(rems[0][0])[:50]))
        else:
            rep.unk(rule, key, f.loc, "floor quotient %s, remainder %s" % (bool(divs), bool(rems)))
    rep.floor(rule, "splits that size their parts", n, 4)


def _step_reassigned(f):
    """(local, where) of a named local that holds `x / parts` or `x % parts` and is assigned a second
    time with something else than itself minus / plus one; None if there is none"""
    defs = f.defs()
    for l, ds in defs.items():
        if not f.local_name(l) or l == 0:
            continue
        whole = [d for d in ds if d[3]]
        if len(whole) < 2:
            continue
        first = None
        for (bb, j, rv, w) in whole:
            src = rv
            if rv[0] == "use" and rv[1][0] in ("c", "m") and len(rv[1][1]) == 1:
                # `step = _tmp` with _tmp = Div(..)
                t = rv[1][1][0]
                tds = [d for d in defs.get(t, []) if d[3]]
                if len(tds) == 1:
                    src = tds[0][2]
            if src[0] == "bin" and src[1] in ("Div", "Rem"):
                first = (bb, j)
        if first is None:
            continue
        for (bb, j, rv, w) in whole:
            if (bb, j) == first:
                continue
            src = rv
            if rv[0] == "use" and rv[1][0] in ("c", "m") and len(rv[1][1]) >= 1:
                t = rv[1][1][0]
                tds = [d for d in defs.get(t, []) if d[3]]
                if len(tds) == 1:
                    src = tds[0][2]
            # `modulo -= 1` / `+= 1` (checked arithmetic: a pair whose field 0 is taken)
            txt = str(src)
            if src[0] == "bin" and src[1].startswith(("Sub", "Add")) and str(l) in txt:
                continue
            if "SubWithOverflow" in txt or "AddWithOverflow" in txt:
                continue
            at = f.blocks[bb]["s"][j][3] if isinstance(j, int) else f.loc
            return (l, at)
    return None


def _with_captures(prog, g, e, depth=0):
    """upvars of closure g replaced by what the enclosing function stored in them"""
    if not isinstance(e, tuple) or not e or depth > 30:
        return e
    if e[0] == "field" and isinstance(e[2], int) and isinstance(e[1], tuple) and e[1]:
        b = e[1]
        while b[0] in ("deref", "ref"):
            b = b[1]
        if b[0] == "param" and b[1] == 1:
            r = resolve_capture(prog, g, e[2])
            if r is not None:
                return r
    if e[0] == "deref" and isinstance(e[1], tuple):
        r = _with_captures(prog, g, e[1], depth + 1)
        return r
    return tuple(_with_captures(prog, g, x, depth + 1) if isinstance(x, tuple) else x for x in e)


def _is_index_times_size(e):
    """(i * size) / parts, also with widening casts and i + 1"""
    num = e[2] if e[0] == "bin" and e[1] == "Div" else None
    while isinstance(num, tuple) and num and num[0] in ("cast", "ovf"):
        num = num[2] if num[0] == "cast" else num[1]
    return isinstance(num, tuple) and bool(num) and num[0] == "bin" and num[1] == "Mul"


def _taint(prog, f, seeds, field_seeds=()):
    """locals of f that may carry a value computed from `seeds` (locals) or from the captured
    fields `field_seeds` of a closure environment (flow-insensitive, through calls)"""
    t = set(seeds)
    fs = set(field_seeds)

    def pl_t(pl):
        if not pl:
            return False
        if pl[0] in t:
            return True
        if pl[0] == 1 and fs:
            for el in pl[1:]:
                if isinstance(el, list) and el[0] == "f":
                    return el[1] in fs
        return False

    def op_t(op):
        return isinstance(op, list) and op and op[0] in ("c", "m") and pl_t(op[1])

    def rv_t(rv):
        k = rv[0]
        if k == "use":
            return op_t(rv[1])
        if k in ("ref", "addr", "rawptr", "len", "discr"):
            return pl_t(rv[2] if k == "ref" else rv[1]) if len(rv) > 1 and isinstance(rv[-1], list) else False
        if k in ("bin", "cbin", "ovf"):
            return any(op_t(o) for o in rv[2:] if isinstance(o, list))
        if k in ("cast", "un"):
            return any(op_t(o) for o in rv[1:] if isinstance(o, list))
        if k == "agg":
            return any(op_t(o) for o in (rv[4] or []))
        return any(op_t(o) for o in rv[1:] if isinstance(o, list))
    changed = True
    while changed:
        changed = False
        for blk in f.blocks:
            if blk["c"]:
                continue
            for st in blk["s"]:
                if st[0] == "a" and st[1][0] not in t:
                    try:
                        hit = rv_t(st[2])
                    except Exception:
                        hit = False
                    if hit:
                        t.add(st[1][0])
                        changed = True
            tm = blk["t"]
            if tm[0] == "call" and tm[3] and tm[3][0] not in t and any(op_t(a) for a in tm[2]):
                t.add(tm[3][0])
                changed = True
    return t, op_t


SINK = re.compile(r"(::new|::from_ref|::from_pixels|::from_buffer|::crop|::crop_unchecked)$")
SLICE_SINKS = ("split_at", "split_at_mut", "get_unchecked", "get_unchecked_mut", "index", "index_mut",
               "get", "get_mut", "chunks", "chunks_mut", "chunks_exact", "chunks_exact_mut", "skip",
               "iter_rows", "iter_rows_mut", "add", "offset")


def start_used(rep, prog, rule):
    rep.rule(rule, "in every split implementation the start row / start column of the requested band "
             "reaches the POSITION of the parts: an argument of the inner view's split, of a part "
             "constructor, or of the slice arithmetic that cuts the parts (a flow-insensitive taint "
             "from the parameter, through locals, calls and closure captures). A start that is only "
             "compared in the guard and then forgotten puts the parts at the top / left edge of the "
             "view: with a band that starts elsewhere (the rayon passes split the source at the crop "
             "offset) every part shows other pixels than requested")
    impls = split_impls(prog)
    rep.floor(rule, "split implementations", len(impls), 17)
    for f, m, who in impls:
        rep.touch(f)
        sym = Sym(f)
        key = f.name
        if is_delegation(f, m, sym):
            rep.ok(rule, key, f.loc, "delegates to inner.%s with the same arguments" % m)
            continue
        if f.arg_count < 4:
            rep.unk(rule, key, f.loc, "unexpected signature")
            continue
        start = 2
        hits = []

        def scan(g, tset, op_t, depth=0):
            for c in g.calls():
                nm = c.name or ""
                meth = c.method or nm.rsplit("::", 1)[-1]
                sink = meth.startswith("split_by_") or SINK.search(nm) or (meth in SLICE_SINKS)
                if sink and any(op_t(a) for a in c.args):
                    hits.append(c)
            if depth >= 2:
                return
            for b, blk in enumerate(g.blocks):
                if blk["c"]:
                    continue
                for st in blk["s"]:
                    if st[0] == "a" and st[2][0] == "agg" and st[2][1] == "closure":
                        h = prog.fns.get(st[2][2])
                        if h is None:
                            continue
                        fseeds = {i for i, o in enumerate(st[2][4] or []) if op_t(o)}
                        t2, op2 = _taint(prog, h, set(), fseeds)
                        scan(h, t2, op2, depth + 1)
        tset, op_t = _taint(prog, f, {start})
        scan(f, tset, op_t)
        if hits:
            rep.ok(rule, key, f.loc, "the start reaches %s" % ", ".join(sorted({short(c.name) for c in hits}))[:100])
        else:
            rep.bad(rule, key + "|start-dropped", f.loc,
                    "%s: the start of the requested band (`%s`) reaches no part constructor, inner split "
                    "or slice position -- it is only tested in the guard: the parts are cut from the "
                    "edge of the view instead of from the requested start" % (f.name, f.local_name(start)))


def run(rep, tier):
    cfgs = ["x86"] if tier == "quick" else ["x86", "x86-rayon", "arm", "wasm"]
    for cfg, prog in programs(cfgs):
        rep.set_cfg(cfg)
        rep.call(guards, rep, prog, "C14.guards")
        rep.call(count, rep, prog, "C14.count")
        rep.call(offsets, rep, prog, "C14.offsets")
        rep.call(aliasing, rep, prog, "C14.aliasing")
        rep.call(start_used, rep, prog, "C14.start-used")
        rep.call(positions, rep, prog, "C14.positions")
        rep.call(band_start, rep, prog, "C14.band-start")
        rep.call(sizes, rep, prog, "C14.sizes")
        if cfg != "wasm":
            n = rep.call(c03.arith, rep, prog, "C14.arith", only=lambda f: "split_by_" in f.name) or 0
            rep.floor("C14.arith", "arithmetic asserts in splits", n, 40)
    if tier == "thorough":
        rep.set_cfg("witness")
        rep.call(witness.report, rep, "C14.types", ["W3", "W5"])
