"""Symbolic values of MIR operands (expression trees over stable locals) and guard facts.

No path enumeration and no solver: an operand is resolved through locals that have exactly one
whole definition and are never mutably borrowed; everything else stays an opaque atom.
Facts are the branch conditions on edges that dominate a block.
"""
from .cfg import Dom, reachable_from
from .ir import op_const, op_fn

ARITH = {"AddWithOverflow": "Add", "SubWithOverflow": "Sub", "MulWithOverflow": "Mul",
         "AddUnchecked": "Add", "SubUnchecked": "Sub", "MulUnchecked": "Mul",
         "ShlUnchecked": "Shl", "ShrUnchecked": "Shr"}

# calls whose result depends only on their arguments (DESIGN Appendix B) — matched on the
# final path segments of the callee's def_path_str / trait method.
PURE_METHODS = {
    "width", "height", "len", "capacity", "get", "size", "count_of_components", "pixel_type",
    "components_is_u8", "precision", "chunks", "chunks_len", "values", "crop_box", "image_view",
    "is_empty", "min", "max", "round", "floor", "ceil", "abs", "clamp", "saturating_sub",
    "saturating_add", "get_ref", "borrow", "as_ref", "deref", "to_owned", "clone", "into",
    "from", "is_nan", "is_finite", "is_infinite", "trunc", "unwrap_or", "wrapping_add",
    "wrapping_sub", "wrapping_mul", "checked_add", "checked_mul", "checked_sub", "as_slice",
    "is_aligned", "pixels", "buffer", "count", "to_le_bytes", "from_le_bytes", "recip", "powf",
    "exp", "sin", "cos", "sqrt", "mul_add", "signum", "is_supported", "cpu_extensions",
}


CMP_METHODS = {"gt": "Gt", "lt": "Lt", "ge": "Ge", "le": "Le", "eq": "Eq", "ne": "Ne"}


def short(name):
    """last path segment of a def_path_str, without generic arguments"""
    s = name
    depth = 0
    out = []
    for ch in s:
        if ch == "<":
            depth += 1
        elif ch == ">":
            depth -= 1
        elif depth == 0:
            out.append(ch)
    s = "".join(out)
    return s.rsplit("::", 1)[-1]


class Sym:
    def __init__(self, fn, rd=True):
        self.fn = fn
        self.use_rd = rd
        self.defs = fn.defs()
        self._stable = {}
        self._memo = {}
        self._mutborrowed = None
        self.dom = None
        self.types = {}      # expression -> type string of the local it was read from

    # ---- stability
    def _scan_mut_borrows(self):
        mb = set()
        for blk in self.fn.blocks:
            if blk["c"]:
                continue
            for st in blk["s"]:
                if st[0] == "a":
                    rv = st[2]
                    if rv[0] == "ref" and rv[1] == "mut":
                        pl = rv[2]
                        # &mut (*x) re-borrows what x points to; x itself is not mutated
                        if "*" not in pl[1:2]:
                            mb.add(pl[0])
                    elif rv[0] == "raw" and "Mut" in rv[1]:
                        pl = rv[2]
                        if "*" not in pl[1:2]:
                            mb.add(pl[0])
        self._mutborrowed = mb

    def stable(self, l):
        if l in self._stable:
            return self._stable[l]
        if self._mutborrowed is None:
            self._scan_mut_borrows()
        ds = self.defs.get(l, [])
        if 1 <= l <= self.fn.arg_count:
            ok = len(ds) == 0 and l not in self._mutborrowed
        else:
            ok = (len(ds) == 1 and ds[0][3] and l not in self._mutborrowed)
        self._stable[l] = ok
        return ok

    # ---- reaching definitions for re-assigned (but never mutably borrowed) locals
    def _rd_eligible(self, l):
        if not self.use_rd:
            return False
        if self._mutborrowed is None:
            self._scan_mut_borrows()
        ds = self.defs.get(l, [])
        is_param = 1 <= l <= self.fn.arg_count
        if l in self._mutborrowed:
            return False
        return len(ds) + (1 if is_param else 0) >= 2

    def _block_transfer(self, b, l, inset):
        """apply the definitions of l in block b (in order) to a reaching set"""
        cur = set(inset)
        ds = sorted((self._pos(j), k) for k, (bb, j, rv, w) in enumerate(self.defs[l]) if bb == b)
        for _, k in ds:
            if self.defs[l][k][3]:
                cur = {k}
            else:
                cur = cur | {k}
        return cur

    def _rd(self):
        """IN sets: block -> {local: set(def index)}; -1 is the parameter's entry value"""
        if hasattr(self, "_rd_in"):
            return self._rd_in
        fn = self.fn
        elig = [l for l in list(self.defs) + list(range(1, fn.arg_count + 1))
                if self._rd_eligible(l)]
        elig = sorted(set(elig))
        IN = {b: {} for b in range(len(fn.blocks))}
        OUT = {b: {} for b in range(len(fn.blocks))}
        changed = True
        while changed:
            changed = False
            for b in range(len(fn.blocks)):
                if fn.blocks[b]["c"]:
                    continue
                new_in = {}
                if b == 0:
                    for l in elig:
                        if 1 <= l <= fn.arg_count:
                            new_in[l] = {-1}
                for p in fn.pred[b]:
                    for l, s in OUT[p].items():
                        new_in.setdefault(l, set()).update(s)
                new_out = {}
                for l in elig:
                    new_out[l] = self._block_transfer(b, l, new_in.get(l, set()))
                if new_in != IN[b] or new_out != OUT[b]:
                    IN[b], OUT[b] = new_in, new_out
                    changed = True
        self._rd_in = IN
        return IN

    @staticmethod
    def _pos(j):
        return 10**9 if j == "term" else j

    def reaching(self, l, at):
        """indices into defs[l] (or -1 = entry value) of the definitions reaching at=(bb, j)"""
        bb, j = at
        cur = set(self._rd()[bb].get(l, set()))
        ds = sorted((self._pos(dj), k) for k, (dbb, dj, rv, w) in enumerate(self.defs.get(l, []))
                    if dbb == bb and self._pos(dj) < self._pos(j))
        for _, k in ds:
            if self.defs[l][k][3]:
                cur = {k}
            else:
                cur = cur | {k}
        return cur

    # ---- expressions
    def local_at(self, l, at):
        if at is None or not self._rd_eligible(l):
            return self.local(l)
        r = self.reaching(l, at)
        if len(r) != 1:
            return ("local", l, self.fn.local_name(l))
        k = next(iter(r))
        if k == -1:
            return ("param", l, self.fn.local_name(l))
        if not self.defs[l][k][3]:
            return ("local", l, self.fn.local_name(l))
        key = ("rd", l, k)
        if key in self._memo:
            return self._memo[key]
        self._memo[key] = ("local", l, self.fn.local_name(l))
        (bb, j, rv, _) = self.defs[l][k]
        e = self.rvalue(rv, bb, (bb, j))
        self._memo[key] = e
        return e

    def local(self, l):
        if l in self._memo:
            return self._memo[l]
        self._memo[l] = ("local", l, self.fn.local_name(l))   # recursion guard
        fn = self.fn
        if 1 <= l <= fn.arg_count and self.stable(l):
            e = ("param", l, fn.local_name(l))
        elif self.stable(l):
            (bb, j, rv, _) = self.defs[l][0]
            e = self.rvalue(rv, bb, (bb, j))
            plain_copy = rv[0] == "use" and rv[1][0] in ("c", "m") and len(rv[1][1]) == 1
            if not self.use_rd and fn.local_name(l) and not plain_copy and unstable_locals(e):
                # a named snapshot of re-assigned locals (`let end_x = x + coeffs.len()`):
                # its value is frozen at the definition, so keep it as an atom of its own
                e = ("local", l, fn.local_name(l))
        else:
            e = ("local", l, fn.local_name(l))
        self._memo[l] = e
        if isinstance(e, tuple) and e[0] in ("field", "call", "callat", "index", "variant"):
            self.types.setdefault(e, fn.local_ty(l))
        return e

    def place(self, pl, at=None):
        e = self.local_at(pl[0], at)
        for p in pl[1:]:
            if p == "*":
                continue
            if isinstance(p, list):
                if p[0] == "f":
                    e = self._field(e, p[1], p[2])
                elif p[0] == "dc":
                    e = ("variant", e, p[2] if p[2] is not None else p[1])
                elif p[0] == "i":
                    e = ("index", e, self.local_at(p[1], at))
                elif p[0] == "ci":
                    e = ("index", e, ("const", -p[1] if p[3] else p[1], "usize"))
                else:
                    e = ("proj", e, str(p))
            else:
                e = ("proj", e, str(p))
        return e

    def _field(self, e, idx, name):
        if e[0] == "ovf" and idx == 0:
            return e[1]
        if e[0] == "ovf" and idx == 1:
            return ("ovfflag", e[1])
        if e[0] == "agg" and e[1] in ("tuple", "closure") and idx < len(e[4]):
            return e[4][idx]
        if e[0] == "agg" and e[1] == "adt" and idx < len(e[4]) and e[3] is not None:
            return e[4][idx]
        return ("field", e, name if name is not None else idx)

    def operand(self, op, at=None):
        k = op[0]
        if k in ("c", "m"):
            return self.place(op[1], at)
        if k == "k":
            f = op_fn(op)
            if f is not None:
                return ("fnconst", f["id"])
            v = op_const(op)
            if v is not None:
                return ("const", v, op[1])
            if isinstance(op[2], list) and op[2] and op[2][0] == "static":
                return ("static", op[2][1])
            if isinstance(op[2], list) and op[2] and op[2][0] == "promoted":
                owner = self.fn.prog.fns.get(op[2][1])
                pf = owner.promoted(op[2][2]) if owner is not None else None
                if pf is not None:
                    ps = Sym(pf)
                    ds = pf.defs().get(0, [])
                    if len(ds) == 1:
                        return ps.rvalue(ds[0][2], ds[0][0], (ds[0][0], ds[0][1]))
                return ("constx", "promoted", op[1])
            if len(op) > 3 and isinstance(op[3], str):
                return ("static", op[3])      # named const item (e.g. a const array)
            return ("constx", str(op[2]), op[1])
        return ("unknown",)

    def rvalue(self, rv, bb=None, at=None):
        k = rv[0]
        if k == "use":
            return self.operand(rv[1], at)
        if k == "bin":
            op = rv[1]
            a, b = self.operand(rv[2], at), self.operand(rv[3], at)
            if op.endswith("WithOverflow"):
                return ("ovf", ("bin", ARITH[op], a, b))
            return ("bin", ARITH.get(op, op), a, b)
        if k == "un":
            return ("un", rv[1], self.operand(rv[2], at))
        if k == "cast":
            return ("cast", rv[1], self.operand(rv[2], at), rv[3])
        if k in ("ref", "raw"):
            return self.place(rv[2], at)
        if k == "discr":
            return ("discr", self.place(rv[1], at))
        if k == "agg":
            ops = tuple(self.operand(o, at) for o in rv[4])
            var = None
            if rv[1] == "adt":
                var = rv[3][1]
            return ("agg", rv[1], rv[2], var, ops)
        if k == "rep":
            return ("rep", self.operand(rv[1], at), rv[2])
        if k == "callret":
            call = rv[1]
            return self.call_expr(call, (call.bb, "term"))
        if k == "setdiscr":
            return ("unknown",)
        return ("unknown",)

    def call_expr(self, call, at=None):
        args = tuple(self.operand(a, at) for a in call.args)
        name = call.name
        if call.callee.get("id") is None:
            return ("callat", call.bb, "<indirect>", args)
        sh = call.method or short(name)
        if sh in CMP_METHODS and len(args) == 2:
            return ("bin", CMP_METHODS[sh], args[0], args[1])
        cg = tuple(x for x in call.cargs() if isinstance(x, int))
        if sh in PURE_METHODS:
            return ("call", sh, args, call.res, name) + ((cg,) if cg else ())
        return ("callat", call.bb, sh, args, call.res, name) + ((cg,) if cg else ())

    # ---- facts
    def edge_facts(self):
        """list of (src_bb, dst_bb, cond_expr, value) for switch edges; value is the switch
        value taken (int/bool) or ('not', [values]) for the otherwise edge."""
        out = []
        fn = self.fn
        for b, blk in enumerate(fn.blocks):
            if blk["c"]:
                continue
            t = blk["t"]
            if t[0] != "sw":
                continue
            cond = self.operand(t[1])
            vals = [v for v, _ in t[2]]
            is_bool = t[4] == "bool"
            tgt_count = {}
            for v, tb in t[2]:
                tgt_count[tb] = tgt_count.get(tb, 0) + 1
            tgt_count[t[3]] = tgt_count.get(t[3], 0) + 1
            for v, tb in t[2]:
                if tgt_count[tb] == 1:
                    out.append((b, tb, cond, bool(v) if is_bool else v))
            if tgt_count[t[3]] == 1:
                if is_bool and vals == [0]:
                    out.append((b, t[3], cond, True))
                elif is_bool and vals == [1]:
                    out.append((b, t[3], cond, False))
                else:
                    out.append((b, t[3], cond, ("not", tuple(vals))))
        return out

    def facts_at(self, bb):
        """conditions that hold on every path reaching block `bb` (edge dominance)"""
        fn = self.fn
        if self.dom is None:
            self.dom = Dom(fn)
            self._efacts = self.edge_facts()
        res = []
        for (p, s, cond, val) in self._efacts:
            if fn.pred[s] != [p]:
                continue
            if not self.dom.dominates(s, bb):
                continue
            # invalidate facts about unstable locals redefined between s and bb
            # (the edge p->s is the only way into s and s dominates bb, so what matters is the
            # stretch after the last crossing of that edge: a definition invalidates the fact
            # only if it lies on a path s ~> bb that does not take the edge again -- a guard
            # inside a loop body on a loop-carried counter stays valid until the counter is
            # updated)
            bad = False
            ul = unstable_locals(cond)
            if ul:
                after = reachable_from(fn, s, blocked_edges={(p, s)})
                for l in ul:
                    for (db, _, _, _) in self.defs.get(l, []):
                        if db in after and bb in reachable_from(fn, db, blocked_edges={(p, s)}):
                            bad = True
            if not bad:
                res.append((cond, val))
        extra = []
        work = list(res)
        for _round in range(4):
            new_facts = self._expand_facts(work, res + extra)
            if not new_facts:
                break
            extra += new_facts
            work = new_facts
        return res + extra

    def _expand_facts(self, work, known):
        """facts implied by the facts in `work` through bool variables, crate-local bool
        predicates and the Ok paths of crate-local Result functions (one expansion step)"""
        fn = self.fn
        out = []

        def add(f_):
            if f_ not in known and f_ not in out:
                out.append(f_)
        for (cond, val) in work:
            c, v = cond, val
            while c[0] == "un" and c[1] == "Not" and isinstance(v, bool):
                c, v = c[2], (not v)
            # a branch on a bool variable that several definitions feed (`let ok = a && b && c;
            # if !ok { return .. }`): what held on every path that can have produced that value
            if c[0] == "local" and isinstance(v, (bool, int)) and fn.local_ty(c[1]) == "bool":
                for f_ in self._implied_by_bool(c[1], bool(v)):
                    add(f_)
            # the result of a crate-local bool function: what holds on every path on which it
            # returns that value, arguments substituted
            if c[0] in ("call", "callat") and isinstance(v, (bool, int)):
                alts = call_alternatives(getattr(fn, "prog", None), c, bool(v))
                if alts:
                    for f_ in set.intersection(*alts):
                        add(f_)
            # a comparison of the result of a crate-local integer function with a constant
            # (`if max_parts(w, h) > 1`): the paths that return a constant contradicting it are
            # excluded, what the others established holds
            if c[0] == "bin" and c[1] in _CMP and isinstance(v, bool):
                for (call_, k_, op_) in ((c[2], c[3], c[1]), (c[3], c[2], _CMP_FLIP[c[1]])):
                    if isinstance(call_, tuple) and call_ and call_[0] in ("call", "callat") and \
                            isinstance(k_, tuple) and k_ and k_[0] == "const" and \
                            isinstance(k_[1], int) and not isinstance(k_[1], bool):
                        alts = call_alternatives(getattr(fn, "prog", None), call_,
                                                 (op_, k_[1], v), "cmp")
                        if alts:
                            for f_ in set.intersection(*alts):
                                add(f_)
            # `let Some(x) = helper(..)? else { .. }`: the Ok(Some) / Ok(None) outcome of a
            # crate-local Result<Option<_>> helper: what held on every path with that outcome
            if c[0] == "discr" and not isinstance(v, bool):
                t_o = _tested_outcome(c, v)
                if t_o is not None and t_o[1] in ("Ok(Some)", "Ok(None)"):
                    alts = call_alternatives(getattr(fn, "prog", None), t_o[0], t_o[1], "outcome")
                    if alts:
                        for f_ in set.intersection(*alts):
                            add(f_)
            # a match on the enum a crate-local selector returned (`match select_kernel(ext)`):
            # what held on every path of the selector that builds that variant
            if c[0] == "discr" and (isinstance(v, int) and not isinstance(v, bool)
                                    or (isinstance(v, tuple) and v and v[0] == "not")):
                x_ = c[1]
                while isinstance(x_, tuple) and x_ and x_[0] in ("cast", "ref", "deref"):
                    x_ = x_[2] if x_[0] == "cast" else x_[1]
                if isinstance(x_, tuple) and x_ and x_[0] in ("call", "callat"):
                    alts = call_alternatives(getattr(fn, "prog", None), x_, v, "variant")
                    if alts:
                        for f_ in set.intersection(*alts):
                            add(f_)
            # `validator(..)?` continued / `if let Ok(..) = validator(..)`: what every Ok path of a
            # crate-local Result function established
            if c[0] == "discr" and v in (0, 1):
                x = c[1]
                while isinstance(x, tuple) and x and x[0] in ("cast", "ref", "deref"):
                    x = x[2] if x[0] == "cast" else x[1]
                through_try = False
                if x[0] == "callat" and x[2] == "branch" and x[3]:
                    x = x[3][0]
                    through_try = True
                # adaptors that keep success / failure: opt.ok_or(e), res.map_err(f), res.ok(), ..
                for _ in range(4):
                    if isinstance(x, tuple) and x and x[0] in ("call", "callat") and \
                            (x[1] if x[0] == "call" else x[2]) in ("ok_or", "ok_or_else", "map_err", "ok", "map") \
                            and (x[2] if x[0] == "call" else x[3]):
                        x = (x[2] if x[0] == "call" else x[3])[0]
                    else:
                        break
                success = (v == 0) if through_try else None
                if success is None and isinstance(x, tuple) and x and x[0] in ("call", "callat"):
                    g_ = getattr(fn, "prog", None)
                    res_ = x[4] if x[0] == "callat" else x[3]
                    gg = g_.fns.get(res_) if g_ is not None and isinstance(res_, str) else None
                    oty = (gg.d.get("output") or "") if gg is not None else ""
                    # discriminants: Result::Ok = 0, Option::Some = 1
                    success = (v == 0) if "Result<" in oty else ((v == 1) if "Option<" in oty else False)
                if success and isinstance(x, tuple) and x and x[0] in ("call", "callat"):
                    alts = call_alternatives(getattr(fn, "prog", None), x, True, "ok")
                    if alts:
                        for f_ in set.intersection(*alts):
                            add(f_)
        return out

    def _implied_by_bool(self, l, val, depth=0):
        """facts that held whenever bool local l received the value `val` (intersection over its
        definitions that can produce it); only facts about single-definition values are kept"""
        if depth > 2:
            return []
        busy = getattr(self, "_bool_busy", set())
        if l in busy:
            return []
        self._bool_busy = busy | {l}
        try:
            alts = []
            for (bb, j, rv, whole) in self.defs.get(l, []):
                if not whole:
                    return []
                r = self.rvalue(rv, bb, (bb, j))
                fs = set(self.facts_at(bb))
                if r[0] == "const" and isinstance(r[1], bool):
                    if r[1] != val:
                        continue
                else:
                    fs.add((r, val))
                alts.append(fs)
            if not alts:
                return []
            common = set.intersection(*alts)
            out = []
            for (c_, v_) in common:
                if all(len(self.defs.get(x, [])) <= 1 for x in unstable_locals(c_)):
                    out.append((c_, v_))
            return out
        finally:
            self._bool_busy = busy


def _subst(e, mapping):
    if not isinstance(e, tuple):
        return e
    if e in mapping:
        return mapping[e]
    return tuple(_subst(x, mapping) if isinstance(x, tuple) else x for x in e)


def project(e):
    """[a, b, c][1] -> b and (a, b).0 -> a (values that travel as an array / tuple)"""
    if not isinstance(e, tuple) or not e:
        return e
    e = tuple(project(x) if isinstance(x, tuple) else x for x in e)
    if e[0] == "index" and len(e) >= 3 and isinstance(e[1], tuple) and e[1] and e[1][0] == "agg" \
            and e[1][1] in ("array", "tuple"):
        k = e[2]
        while isinstance(k, tuple) and k and k[0] == "cast":
            k = k[2]
        if isinstance(k, tuple) and k and k[0] == "const" and isinstance(k[1], int) and k[1] < len(e[1][4]):
            return e[1][4][k[1]]
    if e[0] == "field" and isinstance(e[1], tuple) and e[1] and e[1][0] == "agg" and e[1][1] == "tuple":
        try:
            k = int(e[2])
        except (TypeError, ValueError):
            return e
        if k < len(e[1][4]):
            return e[1][4][k]
    return e


_ALT_BUSY = set()


def _tested_outcome(cond, val):
    """(call expression, outcome) when the branch fact tests the Ok/Err/Some/None outcome of a
    call result: discr(call), discr(branch(call)), discr((branch(call) as Continue).0),
    discr((call as Ok).0)"""
    if cond[0] != "discr" or isinstance(val, bool):
        return None
    x = cond[1]
    while isinstance(x, tuple) and x and x[0] in ("ref", "deref"):
        x = x[1]
    payload = False
    if x[0] == "field" and x[2] in ("0", 0) and isinstance(x[1], tuple) and x[1][0] == "variant" \
            and x[1][2] in ("Continue", "Ok"):
        payload = True
        x = x[1][1]
    tried = False
    if isinstance(x, tuple) and x and x[0] == "callat" and x[2] == "branch" and x[3]:
        tried = True
        x = x[3][0]
    if not (isinstance(x, tuple) and x and x[0] in ("call", "callat")):
        return None

    def pick(zero, one):
        if val == 0 or (isinstance(val, tuple) and val[0] == "not" and 1 in val[1] and 0 not in val[1]):
            return zero
        if val == 1 or (isinstance(val, tuple) and val[0] == "not" and 0 in val[1] and 1 not in val[1]):
            return one
        return None
    if payload:
        o = pick("Ok(None)", "Ok(Some)")            # Option: None = 0, Some = 1
    elif tried:
        o = pick("Ok", "Err")                       # ControlFlow: Continue = 0, Break = 1
    else:
        o = None        # the type decides (Result: Ok = 0; Option: None = 0): see the caller
    return (x, o, val)


def _outcomes(r):
    """the outcomes (Ok / Err / Some / None / Ok(None) / Ok(Some)) a returned expression can
    have, or None when that cannot be told"""
    if not isinstance(r, tuple) or not r:
        return None
    if r[0] == "agg" and r[1] == "adt" and str(r[2]).endswith("result::Result"):
        if r[3] == "Err":
            return {"Err"}
        inner = r[4][0] if r[4] else None
        if isinstance(inner, tuple) and inner and inner[0] == "agg" and inner[1] == "adt" and \
                str(inner[2]).endswith("option::Option"):
            return {"Ok(None)"} if inner[3] == "None" else {"Ok(Some)"}
        return {"Ok"}
    if r[0] == "agg" and r[1] == "adt" and str(r[2]).endswith("option::Option"):
        return {"None"} if r[3] == "None" else {"Some"}
    if r[0] in ("call", "callat"):
        nm = r[1] if r[0] == "call" else r[2]
        args = r[2] if r[0] == "call" else r[3]
        if nm == "from_residual":
            return {"Err", "None"}
        if nm == "map" and len(args) == 2 and "Some" in fmt(args[1]) and "closure" not in fmt(args[1]):
            return {"Ok(Some)", "Err"}          # res.map(Some)
        if nm in ("then_some", "then"):
            return {"Some", "None"}
        if nm in ("ok_or", "ok_or_else"):
            return {"Ok", "Err"}
    return None


_INT_TYS = ("u8", "u16", "u32", "u64", "u128", "usize", "i8", "i16", "i32", "i64", "i128", "isize")
_CMP = {"Lt": lambda a, b: a < b, "Le": lambda a, b: a <= b, "Gt": lambda a, b: a > b,
        "Ge": lambda a, b: a >= b, "Eq": lambda a, b: a == b, "Ne": lambda a, b: a != b}
_CMP_FLIP = {"Lt": "Gt", "Le": "Ge", "Gt": "Lt", "Ge": "Le", "Eq": "Eq", "Ne": "Ne"}


def call_alternatives(prog, e, val, want="bool"):
    """one set of facts (cond, bool) per path on which the crate-local function called by e
    returns `val` (want="bool": a bool function) or returns Ok(..) (want="ok": a function
    returning Result; a tail call of another such function contributes its own Ok paths): the
    switch edges taken (+ the returned expression == val), arguments substituted; None when e
    is not such a call or the callee has loops / too many paths"""
    if prog is None or not isinstance(e, tuple) or not e or e[0] not in ("call", "callat"):
        return None
    res = e[4] if e[0] == "callat" else e[3]
    args = e[3] if e[0] == "callat" else e[2]
    g = prog.fns.get(res) if isinstance(res, str) else None
    if g is None or g.kind == "closure" or len(args) != g.arg_count:
        return None
    out_ty = g.d.get("output") or ""
    if want == "bool" and out_ty != "bool":
        return None
    if want == "ok" and "Result<" not in out_ty and "Option<" not in out_ty:
        return None
    if want == "cmp" and out_ty not in _INT_TYS:
        return None
    if want == "outcome" and "Result<" not in out_ty and "Option<" not in out_ty:
        return None
    if want == "variant":
        base_ty = out_ty.split("<", 1)[0]
        en = [a for k_, a in prog.adts.items()
              if a.get("kind") == "Enum" and (a["name"] == base_ty or k_.endswith("::" + base_ty))]
        if len(en) != 1 or "Result<" in out_ty or "Option<" in out_ty:
            return None
        vmap = {x_["name"]: (x_["discr"] if x_.get("discr") is not None else i_)
                for i_, x_ in enumerate(en[0]["variants"])}
    if g.id in _ALT_BUSY:
        return None
    _ALT_BUSY.add(g.id)
    try:
        gs = Sym(g)
        mapping = {("param", i + 1, g.local_name(i + 1)): a for i, a in enumerate(args)}
        edge = {}
        for (p_, s_, cond, v) in gs.edge_facts():
            edge.setdefault((p_, s_), []).append((cond, v))
        alts = []
        count = [0]

        def value_at(path):
            last = None
            on = set(path)
            for (bb, j, rv, w) in g.defs().get(0, []):
                if bb in on:
                    k = path.index(bb)
                    if last is None or k >= last[0]:
                        last = (k, gs.rvalue(rv, bb, (bb, j)))
            return last[1] if last else None

        def walk(b, path, facts):
            if count[0] > 64 or b in path:
                count[0] = 10 ** 6
                return
            path = path + [b]
            blk = g.blocks[b]
            if blk["c"]:
                return
            t_ = blk["t"]
            if t_ and t_[0] == "ret":
                count[0] += 1
                r = value_at(path)
                if r is None:
                    count[0] = 10 ** 6
                    return
                fs = set(facts)
                if want == "ok":
                    if r[0] == "agg" and r[1] == "adt" and (str(r[2]).endswith("result::Result")
                                                           or str(r[2]).endswith("option::Option")):
                        if (r[3][1] if isinstance(r[3], (list, tuple)) else r[3]) not in ("Ok", "Some"):
                            return
                        alts.append(fs)
                        return
                    if r[0] in ("call", "callat") and (r[1] if r[0] == "call" else r[2]) in ("then_some", "then"):
                        # cond.then_some(v): Some exactly when cond holds
                        a0 = (r[2] if r[0] == "call" else r[3])[0]
                        alts.append(fs | {(_subst(a0, mapping), True)})
                        return
                    if r[0] in ("call", "callat") and (r[1] if r[0] == "call" else r[2]) == "from_residual":
                        return          # `?` passing an Err / None on: not a success path
                    if r[0] in ("call", "callat"):
                        inner = call_alternatives(prog, _subst(r, mapping), True, "ok")
                        if inner is None:
                            count[0] = 10 ** 6
                            return
                        for a_ in inner:
                            alts.append(fs | a_)
                        return
                    count[0] = 10 ** 6
                    return
                if want == "outcome":
                    # val = the outcome asked for: "Ok", "Err", "Some", "None", "Ok(None)",
                    # "Ok(Some)"; a path is kept when its return value may be that outcome, and
                    # a return value whose outcome cannot be told gives up
                    poss = _outcomes(r)
                    if poss is None:
                        count[0] = 10 ** 6
                        return
                    if val in poss or (val == "Ok" and ("Ok(None)" in poss or "Ok(Some)" in poss)):
                        inner_ = None
                        if val in ("Ok(Some)", "Ok") and r[0] in ("call", "callat") and \
                                (r[1] if r[0] == "call" else r[2]) == "map":
                            # res.map(Some) is Ok(Some) exactly when res is Ok: its success paths
                            a_ = (r[2] if r[0] == "call" else r[3])
                            inner_ = call_alternatives(prog, _subst(a_[0], mapping), True, "ok") if a_ else None
                        if inner_:
                            for ia_ in inner_:
                                alts.append(fs | ia_)
                        else:
                            alts.append(fs)
                    return
                if want == "variant":
                    # val = the discriminant found (int) or ('not', (v1, ..)): only paths that
                    # build that variant are kept; any other kind of return value gives up
                    if not (r[0] == "agg" and r[1] == "adt" and r[3] in vmap):
                        count[0] = 10 ** 6
                        return
                    idx_ = vmap[r[3]]
                    if isinstance(val, tuple):
                        if idx_ in val[1]:
                            return
                    elif idx_ != val:
                        return
                    alts.append(fs)
                    return
                if want == "cmp":
                    # val = (op, k, truth): paths whose constant result contradicts
                    # `ret op k == truth` are dropped, the others keep their guards
                    op_, k_, truth_ = val
                    if r[0] == "const" and isinstance(r[1], int) and not isinstance(r[1], bool):
                        if _CMP[op_](r[1], k_) != truth_:
                            return
                    else:
                        fs.add((("bin", op_, _subst(r, mapping), ("const", k_, out_ty)), truth_))
                    alts.append(fs)
                    return
                if r[0] == "const" and isinstance(r[1], bool):
                    if r[1] != val:
                        return
                else:
                    fs.add((_subst(r, mapping), val))
                alts.append(fs)
                return
            for s_ in g.succ[b]:
                extra = [(project(_subst(c_, mapping)), v_) for c_, v_ in edge.get((b, s_), [])
                         if isinstance(v_, bool) or (c_[0] == "discr" and (
                             isinstance(v_, int) or (isinstance(v_, tuple) and v_ and v_[0] == "not")))]
                walk(s_, path, facts + extra)
        walk(0, [], [])
        if count[0] >= 10 ** 6:
            return None
        # facts of the callee that are stated through its own bool variables / nested helpers are
        # expanded in the callee first; what still mentions a local of the callee is dropped
        out = []
        for fs in alts:
            known = list(fs)
            work = list(fs)
            for _ in range(3):
                new_f = gs._expand_facts(work, known)
                new_f = [(project(_subst(c_, mapping)), v_) for c_, v_ in new_f]
                new_f = [f_ for f_ in new_f if f_ not in known]
                if not new_f:
                    break
                known += new_f
                work = new_f
            out.append({f_ for f_ in known if not unstable_locals(f_[0])})
        return out
    finally:
        _ALT_BUSY.discard(g.id)


def unstable_locals(e):
    out = set()
    _walk_locals(e, out)
    return out


def _walk_locals(e, out):
    if not isinstance(e, tuple):
        return
    if e and e[0] == "local":
        out.add(e[1])
        return
    for x in e[1:]:
        if isinstance(x, tuple):
            _walk_locals(x, out)


def atoms(e, acc=None):
    """leaf atoms of an expression: params, calls (pure getters count as atoms together with
    their receiver), fields, locals, callat"""
    if acc is None:
        acc = []
    if not isinstance(e, tuple) or not e:
        return acc
    k = e[0]
    if k in ("param", "local", "callat", "unknown", "constx", "static"):
        acc.append(e)
    elif k == "call":
        if e[1] in ("min", "max", "clamp", "saturating_sub", "saturating_add", "abs",
                    "wrapping_add", "wrapping_sub", "wrapping_mul"):
            for a in e[2]:
                atoms(a, acc)
        else:
            acc.append(e)
    elif k == "field":
        acc.append(e)
    elif k in ("bin",):
        atoms(e[2], acc)
        atoms(e[3], acc)
    elif k in ("un", "cast"):
        atoms(e[2], acc)
    elif k == "ovf":
        atoms(e[1], acc)
    elif k in ("const", "fnconst"):
        pass
    else:
        acc.append(e)
    return acc


def fmt(e):
    """compact human-readable rendering"""
    if not isinstance(e, tuple) or not e:
        return str(e)
    k = e[0]
    if k == "param":
        return str(e[2] or "arg%d" % e[1])
    if k == "local":
        return "%s" % (e[2] or "_%d" % e[1])
    if k == "const":
        return str(e[1])
    if k == "bin":
        return "(%s %s %s)" % (fmt(e[2]), e[1], fmt(e[3]))
    if k == "un":
        return "%s(%s)" % (e[1], fmt(e[2]))
    if k == "cast":
        return "(%s as %s)" % (fmt(e[2]), e[3])
    if k == "call":
        return "%s(%s)" % (e[1], ", ".join(fmt(a) for a in e[2]))
    if k == "callat":
        return "%s@bb%d(%s)" % (e[2], e[1], ", ".join(fmt(a) for a in e[3]))
    if k == "field":
        return "%s.%s" % (fmt(e[1]), e[2])
    if k == "ovf":
        return fmt(e[1])
    if k == "discr":
        return "discr(%s)" % fmt(e[1])
    if k == "variant":
        return "%s as %s" % (fmt(e[1]), e[2])
    if k == "agg":
        return "%s{%s}" % (e[3] or e[1], ", ".join(fmt(a) for a in e[4]))
    if k == "index":
        return "%s[%s]" % (fmt(e[1]), fmt(e[2]))
    if k == "static":
        return e[1].rsplit("::", 1)[-1]
    return str(e)
