"""Verdict accounting, known-findings handling and evidence writing."""
import json
import os
import re
import sys
import time

from .facts import VERIF, CheckError

DISCHARGED, VIOLATION, UNDECIDED = "DISCHARGED", "VIOLATION", "UNDECIDED"


def evidence_dir():
    """/verif/evidence, or a scratch directory for the self-test (FIR_EVIDENCE_DIR)"""
    return os.environ.get("FIR_EVIDENCE_DIR") or os.path.join(VERIF, "evidence")


def _modless(key):
    """`a::b::Type::method` -> `Type::method` inside a key (paths that end in a free function
    are left alone)"""
    import re as _re
    return _re.sub(r"\b(?:[a-z_][a-z0-9_]*::)+([A-Z][A-Za-z0-9_]*(?:<[^|>]*>)?::)", r"\1", key)


def load_known():
    """known_findings.txt: one entry per line,
         known: property=<id> key=<rule>|<key> :: <what fails>
         fixed: property=<id> <commit> <what failed>
    `fixed` entries document repaired defects and suppress nothing."""
    path = os.path.join(VERIF, "known_findings.txt")
    out = []
    if os.path.exists(path):
        with open(path) as fh:
            for line in fh:
                line = line.strip()
                if not line or line.startswith("#"):
                    continue
                if line.startswith("known:"):
                    body = line[len("known:"):].strip()
                    head, _, what = body.partition(" :: ")
                    parts = head.split(" ", 1)
                    prop = parts[0].split("=", 1)[1]
                    key = parts[1].strip()
                    if key.startswith("key="):
                        key = key[4:]
                    out.append({"status": "known", "property": prop, "key": key, "what": what})
                elif line.startswith("fixed:"):
                    body = line[len("fixed:"):].strip().split(" ", 2)
                    out.append({"status": "fixed", "property": body[0].split("=", 1)[1],
                                "commit": body[1] if len(body) > 1 else "",
                                "what": body[2] if len(body) > 2 else ""})
    return out


class Instance:
    __slots__ = ("rule", "key", "verdict", "where", "detail", "cfg", "nontrivial")

    def __init__(self, rule, key, verdict, where, detail, cfg, nontrivial=True):
        self.rule, self.key, self.verdict = rule, key, verdict
        self.where, self.detail, self.cfg, self.nontrivial = where, detail, cfg, nontrivial

    def as_json(self):
        return {"rule": self.rule, "key": self.key, "verdict": self.verdict,
                "where": self.where, "detail": self.detail, "cfg": self.cfg}


class Report:
    """Collects rule instances for one property run."""

    def __init__(self, prop, tier):
        self.prop = prop
        self.tier = tier
        self.t0 = time.time()
        self.instances = []
        self.floors = []        # (rule, what, found, floor)
        self.configs = []
        self.functions_analysed = set()
        self.notes = []
        self.rules = {}         # rule id -> text
        self.cfg = None
        self.anchors = {}

    # ---- recording
    def set_cfg(self, cfg, prog=None):
        self.cfg = cfg
        if cfg not in self.configs:
            self.configs.append(cfg)

    def rule(self, rid, text):
        self.rules[rid] = text

    def touch(self, fn):
        self.functions_analysed.add((self.cfg, fn.id if hasattr(fn, "id") else str(fn)))

    def add(self, rule, key, verdict, where="", detail="", nontrivial=True):
        self.instances.append(Instance(rule, key, verdict, where, detail, self.cfg, nontrivial))

    def ok(self, rule, key, where="", detail="", nontrivial=True):
        self.add(rule, key, DISCHARGED, where, detail, nontrivial)

    def bad(self, rule, key, where="", detail=""):
        self.add(rule, key, VIOLATION, where, detail)

    def unk(self, rule, key, where="", detail=""):
        self.add(rule, key, UNDECIDED, where, detail)

    def floor(self, rule, what, found, floor):
        """fewer anchors than were confirmed by hand on the reference tree: the rule covers
        less than it claims. This is never an accusation of the code: it is recorded as an
        UNDECIDED instance and a CHECK-WARNING line (exit status unaffected); when NOTHING is
        found the rule would pass vacuously, which is reported the same way."""
        self.floors.append((rule, what, found, floor, self.cfg))
        if found < floor:
            msg = "%s: anchor count for %s fell to %d (reference %d) in cfg %s" % (
                rule, what, found, floor, self.cfg)
            print("CHECK-WARNING %s" % msg, file=sys.stderr)
            self.unk(rule, "floor|%s" % what, "", msg)
            self.note(msg)

    def call(self, func, *args, **kw):
        """run one rule; a missing anchor (CheckError) makes that rule UNDECIDED instead of
        aborting the whole property check"""
        try:
            return func(*args, **kw)
        except CheckError as e:
            rule = next((a for a in args if isinstance(a, str) and re.match(r"^C\d\d\.", a)),
                        getattr(func, "__name__", "rule"))
            print("CHECK-WARNING %s: %s" % (rule, e), file=sys.stderr)
            self.unk(rule, "anchor-missing", "", str(e))
            self.note("%s: %s" % (rule, e))
            return None
        except Exception as e:      # noqa: BLE001
            # a rule that trips over a shape of code it was not written for has not decided
            # anything: the instance is UNDECIDED (with the traceback on stderr), the other rules
            # of the property still run. (On the reference tree no rule fails this way; the
            # warning line and the floors make a rule that stops working visible.)
            import traceback
            rule = next((a for a in args if isinstance(a, str) and re.match(r"^C\d\d\.", a)),
                        getattr(func, "__name__", "rule"))
            traceback.print_exc(file=sys.stderr)
            print("CHECK-WARNING %s: the rule could not analyse this tree (%s: %s)"
                  % (rule, type(e).__name__, e), file=sys.stderr)
            self.unk(rule, "rule-not-applicable", "", "%s: %s" % (type(e).__name__, e))
            self.note("%s: not analysed (%s)" % (rule, type(e).__name__))
            return None

    def note(self, s):
        self.notes.append(s)

    # ---- finishing
    def finish(self):
        known = [k for k in load_known() if k.get("property") == self.prop]
        known_keys = {k["key"]: k for k in known if k.get("status") == "known"}
        viol, known_hits = {}, {}
        modless_keys = {_modless(k): k for k in known_keys}
        for inst in self.instances:
            if inst.verdict != VIOLATION:
                continue
            full = "%s|%s" % (inst.rule, inst.key)
            if full not in known_keys and _modless(full) in modless_keys:
                # the item moved to another module: `Type::method` identifies it, the module path
                # is the author's choice (free functions keep their path: there the module, e.g.
                # the pixel type, is the identity)
                full = modless_keys[_modless(full)]
            if full in known_keys:
                known_hits.setdefault(full, []).append(inst)
            else:
                viol.setdefault(full, []).append(inst)
        for full, insts in sorted(known_hits.items()):
            k = known_keys[full]
            print("KNOWN-FINDING: property=%s %s [%s] (%s)" % (
                self.prop, k.get("what", ""), full,
                ",".join(sorted({i.cfg or "?" for i in insts}))))
        vdir = os.path.join(evidence_dir(), "violations")
        replay_paths = []
        if viol:
            os.makedirs(vdir, exist_ok=True)
        for n, (full, insts) in enumerate(sorted(viol.items())):
            path = os.path.join(vdir, "%s-%02d.json" % (self.prop, n))
            with open(path, "w") as fh:
                json.dump({"property": self.prop, "key": full, "rule_text": self.rules.get(
                    insts[0].rule, ""), "instances": [i.as_json() for i in insts]}, fh, indent=1)
            replay_paths.append(path)
            i0 = insts[0]
            print("VIOLATION property=%s replay=%s" % (self.prop, path))
            print("  rule=%s key=%s\n  at %s [%s]\n  %s" % (
                i0.rule, i0.key, i0.where, ",".join(sorted({i.cfg or "?" for i in insts})),
                i0.detail))
        self.write_evidence(len(viol), sorted(known_hits))
        return 1 if viol else 0

    def write_evidence(self, n_viol, known_hit_keys):
        inst = self.instances
        distinct = {}
        for i in inst:
            distinct.setdefault((i.rule, i.key), i)
        nontrivial = [i for i in distinct.values() if i.nontrivial]
        counts = {DISCHARGED: 0, VIOLATION: 0, UNDECIDED: 0}
        for i in distinct.values():
            counts[i.verdict] += 1
        per_rule = {}
        for i in distinct.values():
            r = per_rule.setdefault(i.rule, {DISCHARGED: 0, VIOLATION: 0, UNDECIDED: 0})
            r[i.verdict] += 1
        samples = []
        seen_rules = {}
        for i in sorted(distinct.values(), key=lambda x: (x.rule, x.verdict, x.key)):
            c = seen_rules.get((i.rule, i.verdict), 0)
            if c < 3:
                samples.append(i.as_json())
                seen_rules[(i.rule, i.verdict)] = c + 1
        undec = [i.as_json() for i in distinct.values() if i.verdict == UNDECIDED]
        ev = {
            "property_id": self.prop,
            "tier": self.tier,
            "seed": int(os.environ.get("VERIF_SEED", "0") or 0),
            "level": "other",
            "coverage": {
                "explanation": (
                    "Static analysis of /repo's type-checked program (MIR at mir-opt-level 0 "
                    "extracted by the firdrv rustc driver; nothing is executed). Each rule "
                    "instance ends DISCHARGED, VIOLATION or UNDECIDED; only unlisted definite "
                    "violations fail the check. Rules: "
                    + " || ".join("%s: %s" % kv for kv in sorted(self.rules.items()))),
                "evaluations": len(inst),
                "distinct_nontrivial": len(nontrivial),
                "rule": ("instances are enumerated from the extracted program (anchors listed "
                         "under floors); distinct = distinct (rule,key); non-trivial = the "
                         "obligation was not discharged by types alone"),
                "samples": samples[:60],
                "configs": self.configs,
                "functions_analysed": len(self.functions_analysed),
                "discharged": counts[DISCHARGED],
                "undecided": counts[UNDECIDED],
                "violations_total": counts[VIOLATION],
                "per_rule": per_rule,
                "undecided_instances": undec[:200],
                "known_findings_hit": known_hit_keys,
                "floors": [{"rule": r, "what": w, "found": f, "floor": fl, "cfg": c}
                           for (r, w, f, fl, c) in self.floors],
                "notes": self.notes,
                "exhaustive": False,
            },
            "assumptions": [
                "rustc nightly type checker and MIR construction are trusted",
                "firdrv renders MIR faithfully",
                "role/idiom tables under fircheck/tables are hand-written and reviewed",
                "UNDECIDED instances are not proved; see coverage.undecided_instances",
            ],
            "wall_s": round(time.time() - self.t0, 3),
            "violations": n_viol,
        }
        os.makedirs(evidence_dir(), exist_ok=True)
        with open(os.path.join(evidence_dir(), "%s.json" % self.prop), "w") as fh:
            json.dump(ev, fh, indent=1)
