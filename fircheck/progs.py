"""Loading of extracted programs per configuration (shared by all property modules)."""
from . import facts, ir

_cache = {}


def program(cfg):
    if cfg not in _cache:
        _cache[cfg] = ir.Program(facts.load(cfg))
    return _cache[cfg]


def programs(cfgs):
    for c in cfgs:
        yield c, program(c)
