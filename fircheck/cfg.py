"""CFG utilities on Fn (normal edges only)."""


def reachable_from(fn, start, blocked=(), blocked_edges=()):
    """blocks reachable from `start` without entering a block in `blocked` and without
    taking an edge in `blocked_edges` (set of (src,dst))."""
    blocked = set(blocked)
    if start in blocked:
        return set()
    seen = {start}
    work = [start]
    while work:
        b = work.pop()
        for s in fn.succ[b]:
            if s in seen or s in blocked or (b, s) in blocked_edges:
                continue
            seen.add(s)
            work.append(s)
    return seen


def find_path(fn, start, goals, blocked=(), blocked_edges=()):
    """one path (list of blocks) from start to any goal avoiding blocked blocks/edges"""
    blocked = set(blocked)
    goals = set(goals)
    if start in blocked:
        return None
    prev = {start: None}
    work = [start]
    while work:
        b = work.pop(0)
        if b in goals:
            path = []
            while b is not None:
                path.append(b)
                b = prev[b]
            return path[::-1]
        for s in fn.succ[b]:
            if s in prev or s in blocked or (b, s) in blocked_edges:
                continue
            prev[s] = b
            work.append(s)
    return None


def find_path_consistent(fn, start, goals, blocked=(), blocked_edges=()):
    """like find_path, but a path may not contradict itself on bool variables: constants
    assigned to bool locals (and copies / negations of them) are tracked along the path and a
    switch on such a local is followed only along the edge its value selects. This removes the
    paths  `let done = false; .. if !done { work }`  -> skip `work`."""
    blocked = set(blocked)
    goals = set(goals)
    if start in blocked:
        return None

    def kill(env, L):
        env.pop(L, None)
        for k in [k for k, v in env.items() if isinstance(v, tuple) and v[1] == L]:
            env.pop(k)

    def transfer(b, env):
        env = dict(env)
        blk = fn.blocks[b]
        for st in blk["s"]:
            if st[0] != "a" or len(st[1]) != 1:
                continue
            L = st[1][0]
            rv = st[2]
            val = None
            if rv[0] in ("ref", "raw") and "shared" not in str(rv[1]) and rv[2]:
                kill(env, rv[2][0])       # may be written through the borrow from here on
            if fn.local_ty(L) != "bool":
                kill(env, L)
                continue
            if rv[0] == "use":
                op = rv[1]
                if op[0] == "k" and isinstance(op[2], bool):
                    val = op[2]
                elif op[0] in ("c", "m") and len(op[1]) == 1:
                    X = op[1][0]
                    if isinstance(env.get(X), bool):
                        val = env[X]
                    elif X != L:
                        # a copy of a value not known yet: the first switch on it decides both
                        val = env[X] if isinstance(env.get(X), tuple) else ("eq", X)
            elif rv[0] == "un" and rv[1] == "Not":
                op = rv[2]
                if op[0] in ("c", "m") and len(op[1]) == 1:
                    X = op[1][0]
                    if isinstance(env.get(X), bool):
                        val = not env[X]
                    elif X != L:
                        v0 = env.get(X)
                        if isinstance(v0, tuple):
                            val = ("ne" if v0[0] == "eq" else "eq", v0[1])
                        else:
                            val = ("ne", X)
            kill(env, L)
            if val is not None:
                env[L] = val
        t = blk["t"]
        if t and t[0] == "call" and t[3]:
            kill(env, t[3][0])
        return env
    start_env = frozenset()
    prev = {(start, start_env): None}
    work = [(start, start_env)]
    while work:
        state = work.pop(0)
        b, envf = state
        if b in goals:
            path = []
            s_ = state
            while s_ is not None:
                path.append(s_[0])
                s_ = prev[s_]
            return path[::-1]
        env = transfer(b, dict(envf))
        t = fn.blocks[b]["t"]
        allowed = None
        learn = {}
        if t and t[0] == "sw" and t[1][0] in ("c", "m") and len(t[1][1]) == 1:
            L = t[1][1][0]
            if isinstance(env.get(L), bool):
                v = env[L]
                tg = None
                for val, tb in t[2]:
                    if bool(val) == v and val in (0, 1):
                        tg = tb
                allowed = {tg if tg is not None else t[3]}
            elif len(t) > 4 and t[4] == "bool" and len(t[2]) == 1 and t[2][0][0] in (0, 1) \
                    and t[2][0][1] != t[3]:
                # a bool not known yet: the edge taken fixes it (and the local it copies) for
                # the rest of the path, so a second test of the same value cannot disagree
                arm_v = bool(t[2][0][0])
                for tb, v in ((t[2][0][1], arm_v), (t[3], not arm_v)):
                    e2 = dict(env)
                    a = e2.get(L)
                    e2[L] = v
                    if isinstance(a, tuple):
                        e2[a[1]] = v if a[0] == "eq" else (not v)
                    learn[tb] = e2
        for s in fn.succ[b]:
            if s in blocked or (b, s) in blocked_edges:
                continue
            if allowed is not None and s not in allowed:
                continue
            nf = frozenset(learn.get(s, env).items())
            ns = (s, nf)
            if ns in prev:
                continue
            prev[ns] = state
            work.append(ns)
    return None


def rpo(fn, start=0):
    seen = set()
    order = []
    stack = [(start, iter(fn.succ[start]))]
    seen.add(start)
    while stack:
        b, it = stack[-1]
        adv = False
        for s in it:
            if s not in seen:
                seen.add(s)
                stack.append((s, iter(fn.succ[s])))
                adv = True
                break
        if not adv:
            order.append(b)
            stack.pop()
    return order[::-1]


def dominators(fn, start=0):
    """immediate dominators (Cooper-Harvey-Kennedy); returns dict block -> idom"""
    order = rpo(fn, start)
    idx = {b: i for i, b in enumerate(order)}
    idom = {start: start}
    changed = True
    while changed:
        changed = False
        for b in order[1:]:
            new = None
            for p in fn.pred[b]:
                if p in idom and p in idx:
                    if new is None:
                        new = p
                    else:
                        a, c = p, new
                        while a != c:
                            while idx[a] > idx[c]:
                                a = idom[a]
                            while idx[c] > idx[a]:
                                c = idom[c]
                        new = a
            if new is not None and idom.get(b) != new:
                idom[b] = new
                changed = True
    return idom


class Dom:
    def __init__(self, fn, start=0):
        self.fn = fn
        self.idom = dominators(fn, start)
        self.start = start

    def dominates(self, a, b):
        """a dominates b (reflexive)"""
        if b not in self.idom:
            return False
        while True:
            if a == b:
                return True
            if b == self.start:
                return False
            b = self.idom[b]

    def chain(self, b):
        out = []
        if b not in self.idom:
            return out
        while True:
            out.append(b)
            if b == self.start:
                return out
            b = self.idom[b]


def back_edges(fn, dom=None):
    dom = dom or Dom(fn)
    out = []
    for b in dom.idom:
        for s in fn.succ[b]:
            if dom.dominates(s, b):
                out.append((b, s))
    return out


def loop_blocks(fn, dom=None):
    """set of blocks that belong to some natural loop, and map header -> body set"""
    dom = dom or Dom(fn)
    loops = {}
    for (t, h) in back_edges(fn, dom):
        body = {h, t}
        work = [t]
        while work:
            x = work.pop()
            if x == h:
                continue
            for p in fn.pred[x]:
                if p not in body and p in dom.idom:
                    body.add(p)
                    work.append(p)
        loops.setdefault(h, set()).update(body)
    return loops
