#!/bin/sh
# Builds the verification machinery offline from files on disk only.
set -e
cd "$(dirname "$0")"
export CARGO_NET_OFFLINE=true
(cd driver && cargo build --release --offline 2>&1 | tail -3)
test -x driver/target/release/firdrv
mkdir -p .cache evidence
if [ -d witness ]; then cp /repo/Cargo.lock witness/Cargo.lock 2>/dev/null || true; fi
echo "setup ok"
