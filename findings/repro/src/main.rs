use fast_image_resize as fr;
use fr::images::{Image, TypedCroppedImage, TypedImage, TypedImageRef};
use fr::pixels::{U16x2, U8, U8x4, I32, F32};
use fr::{CpuExtensions, FilterType, ImageView, ImageViewMut, MulDiv, PixelType, ResizeAlg, ResizeOptions, Resizer};
use std::num::NonZeroU32;
use std::panic::{catch_unwind, AssertUnwindSafe};

fn guard<T: std::fmt::Debug>(name: &str, f: impl FnOnce() -> T) {
    match catch_unwind(AssertUnwindSafe(f)) {
        Ok(v) => println!("{name}: returned {v:?}"),
        Err(e) => {
            let msg = e.downcast_ref::<String>().cloned().or_else(|| e.downcast_ref::<&str>().map(|s| s.to_string()));
            println!("{name}: PANIC {msg:?}")
        }
    }
}

fn sharp(x: f64) -> f64 {
    // alternating-sign kernel: normalised weights become large
    let a = x.abs();
    if a < 0.5 { 1.0 } else if a < 1.5 { -0.45 } else { 0.0 }
}

/// a user-defined view that fulfils the documented contract of the unsafe trait
struct MyView { w: u32, h: u32, row: Vec<U8> }
unsafe impl ImageView for MyView {
    type Pixel = U8;
    fn width(&self) -> u32 { self.w }
    fn height(&self) -> u32 { self.h }
    fn iter_rows(&self, start_row: u32) -> impl Iterator<Item = &[U8]> {
        (start_row..self.h).map(move |_| self.row.as_slice())
    }
}

/// a user-defined RGBA view whose rows are longer than its width (a strided buffer handed out
/// row by row): allowed by the documented contract "equal or greater than the image width"
struct Strided { w: u32, h: u32, stride: usize, px: Vec<U8x4> }
unsafe impl ImageView for Strided {
    type Pixel = U8x4;
    fn width(&self) -> u32 { self.w }
    fn height(&self) -> u32 { self.h }
    fn iter_rows(&self, start_row: u32) -> impl Iterator<Item = &[U8x4]> {
        self.px.chunks_exact(self.stride).skip(start_row as usize).take((self.h.saturating_sub(start_row)) as usize)
    }
}

fn main() {
    let case = std::env::args().nth(1).unwrap_or_else(|| "all".into());
    let all = case == "all";
    let want = |c: &str| all || case == c;
    std::panic::set_hook(Box::new(|_| {}));

    if want("crop-nan") {
        let src = Image::new(4, 4, PixelType::U8);
        let mut dst = Image::new(2, 2, PixelType::U8);
        let mut r = Resizer::new();
        for (l, t, w, h) in [(f64::NAN, 0., 2., 2.), (-1., 0., 2., 2.), (0., 0., f64::NAN, 2.), (-1e300, 0., 2., 2.)] {
            guard(&format!("crop({l},{t},{w},{h}) on 4x4"), || {
                r.resize(&src, &mut dst, &ResizeOptions::new().crop(l, t, w, h).resize_alg(ResizeAlg::Nearest))
            });
        }
    }
    if want("crop-denormal-width") {
        // a sub-pixel crop so narrow that left + width == left: the validator accepts it,
        // the horizontal coefficient table has a zero scale
        for (pt, name) in [(PixelType::U8, "U8"), (PixelType::U16, "U16"), (PixelType::F32, "F32")] {
            let src = Image::new(4, 4, pt);
            let mut dst = Image::new(3, 3, pt);
            let mut r = Resizer::new();
            for (l, t, w, h) in [(1.0, 0.0, 1e-300, 4.0), (0.0, 1.0, 4.0, 1e-300), (1.0, 0.0, 1e-17, 4.0), (0.0, 0.0, 1e-300, 4.0)] {
                for alg in [ResizeAlg::Convolution(fr::FilterType::Bilinear), ResizeAlg::Nearest,
                            ResizeAlg::SuperSampling(fr::FilterType::Bilinear, 2)] {
                    guard(&format!("{name} crop({l},{t},{w:e},{h:e}) 4x4 -> 3x3 {alg:?}"), || {
                        r.resize(&src, &mut dst, &ResizeOptions::new().crop(l, t, w, h).resize_alg(alg))
                    });
                }
            }
        }
    }
    if want("cropbox-overflow") {
        let img = TypedImage::<U8>::new(4, 4);
        guard("TypedCroppedImage::from_ref(4x4, 1,0,u32::MAX,1)", || {
            TypedCroppedImage::from_ref(&img, 1, 0, u32::MAX, 1).map(|v| (v.width(), v.height()))
        });
        guard("TypedCroppedImage::from_ref(4x4, 0,1,1,u32::MAX)", || {
            TypedCroppedImage::from_ref(&img, 0, 1, 1, u32::MAX).map(|v| (v.width(), v.height()))
        });
    }
    if want("buffer-size-wrap") {
        let mut buf = [0u8; 16];
        guard("Image::from_slice_u8(2^31,2^31,16 bytes,U8x4)", || {
            Image::from_slice_u8(1 << 31, 1 << 31, &mut buf, PixelType::U8x4).map(|i| (i.width(), i.height()))
        });
        let buf2 = [0u8; 16];
        guard("ImageRef::new(2^31,2^31,16 bytes,U8x4)", || {
            fr::images::ImageRef::new(1 << 31, 1 << 31, &buf2, PixelType::U8x4).map(|i| (i.width(), i.height()))
        });
        guard("Image::from_vec_u8(2^31,2^31,16 bytes,U8x4)", || {
            Image::from_vec_u8(1 << 31, 1 << 31, vec![0u8; 16], PixelType::U8x4).map(|i| (i.width(), i.height()))
        });
        #[cfg(target_pointer_width = "64")]
        {
            let px = [U8x4::new([0; 4]); 4];
            guard("TypedImageRef::new(2^32-1, 2^32+..)", || {
                TypedImageRef::new(u32::MAX, u32::MAX, &px).map(|i| (i.width(), i.height()))
            });
        }
    }
    if want("iter-rows-start") {
        let img = TypedImage::<U8>::new(4, 6);
        let v = TypedCroppedImage::from_ref(&img, 0, 1, 4, 2).unwrap();
        guard("cropped(h=2).iter_rows(3).count()", || v.iter_rows(3).count());
    }
    if want("nearest-edge") {
        let src = Image::new(10, 1, PixelType::U8);
        let mut dst = Image::new(1, 1, PixelType::U8);
        let mut r = Resizer::new();
        let left = 9.999999999999998f64;
        guard("nearest crop left=9.999999999999998 width=10-left on 10x1", || {
            r.resize(&src, &mut dst, &ResizeOptions::new().crop(left, 0., 10. - left, 1.).resize_alg(ResizeAlg::Nearest))
        });
    }
    if want("supersampling-noop") {
        let mut src = Image::new(40, 40, PixelType::U8);
        src.buffer_mut().fill(200);
        let mut dst = Image::new(10, 10, PixelType::U8);
        dst.buffer_mut().fill(7);
        let mut r = Resizer::new();
        let res = r.resize(&src, &mut dst, &ResizeOptions::new().resize_alg(ResizeAlg::SuperSampling(FilterType::Box, 1)));
        println!("supersampling(Box,1) 40x40(200)->10x10(7): {res:?} dst[0]={} (7 = untouched)", dst.buffer()[0]);
    }
    if want("supersampling-zero") {
        // SuperSampling with multiplicity 0: factor = scale / 0 = inf, the intermediate image is
        // 0x0, nothing is resized; with alpha handling the stale destination is alpha-divided
        let src = Image::from_vec_u8(64, 64, (0..64 * 64 * 4).map(|i| (i % 251) as u8).collect(), PixelType::U8x4).unwrap();
        for use_alpha in [true, false] {
            let mut dst = Image::from_vec_u8(8, 8, vec![100u8; 8 * 8 * 4], PixelType::U8x4).unwrap();
            let mut r = Resizer::new();
            let o = ResizeOptions::new().resize_alg(ResizeAlg::SuperSampling(FilterType::Bilinear, 0)).use_alpha(use_alpha);
            let res = r.resize(&src, &mut dst, &o);
            println!("supersampling(Bilinear,0) use_alpha={use_alpha}: {res:?} dst[0..4]={:?} (100,100,100,100 = stale; 255,255,255,100 = stale and alpha-divided)", &dst.buffer()[0..4]);
        }
    }
    if want("fit-nan") {
        // FitIntoDestination with a NaN centering: f64::clamp keeps NaN, the crop origin is NaN
        for c in [(f64::NAN, 0.5), (0.5, f64::NAN)] {
            let src = Image::new(640, 480, PixelType::U8);
            let mut dst = Image::new(100, 100, PixelType::U8);
            let mut r = Resizer::new();
            let o = ResizeOptions::new().resize_alg(ResizeAlg::Nearest).fit_into_destination(Some(c));
            println!("fit 640x480 -> 100x100 centering {c:?}: {:?}", r.resize(&src, &mut dst, &o));
        }
    }
    if want("fit-extreme") {
        // 2^27 x 1 into 1 x 2^27 with centering 1.0: crop width 2^-27, left = fl(2^27 - 2^-27) = 2^27
        // = image width: the validator's `left < width` rejects the box the crate computed itself
        for (sw, sh, dw, dh) in [(1u32 << 27, 1u32, 1u32, 1u32 << 27), (1 << 26, 1, 1, 1 << 26)] {
            let src = Image::new(sw, sh, PixelType::U8);
            let mut dst = Image::new(dw, dh, PixelType::U8);
            let mut r = Resizer::new();
            let o = ResizeOptions::new().resize_alg(ResizeAlg::Nearest).fit_into_destination(Some((1.0, 1.0)));
            println!("fit {sw}x{sh} -> {dw}x{dh} centering (1,1): {:?}", r.resize(&src, &mut dst, &o));
        }
    }
    if want("alpha-long-rows") {
        // two-image alpha multiplication from a view whose rows are longer than its width:
        // the SIMD rows pair the remainder of the *source row* with the remainder of the destination row
        let (w, h, stride) = (6u32, 2u32, 9usize);
        let px: Vec<U8x4> = (0..stride * h as usize).map(|i| U8x4::new([200, 100, 50, (20 + 23 * i) as u8])).collect();
        let src = Strided { w, h, stride, px: px.clone() };
        let mut exact = TypedImage::<U8x4>::new(w, h);
        for (y, row) in exact.iter_rows_mut(0).enumerate() {
            row.copy_from_slice(&px[y * stride..y * stride + w as usize]);
        }
        for ext in [CpuExtensions::None, CpuExtensions::Sse4_1, CpuExtensions::Avx2] {
            if !ext.is_supported() { continue; }
            let mut md = MulDiv::default();
            unsafe { md.set_cpu_extensions(ext) };
            let mut a = TypedImage::<U8x4>::new(w, h);
            let mut b = TypedImage::<U8x4>::new(w, h);
            md.multiply_alpha_typed(&src, &mut a).unwrap();
            md.multiply_alpha_typed(&exact, &mut b).unwrap();
            let diff = a.pixels().iter().zip(b.pixels()).filter(|(x, y)| x.0 != y.0).count();
            println!("multiply_alpha_typed {ext:?}: {diff} of {} pixels differ between the strided view and an exact copy", w * h);
        }
    }
    if want("crop-unvalidated-empty") {
        // a crop box of zero width / height is never validated: NaN or far-away origins are accepted
        let src = Image::new(8, 8, PixelType::U8);
        for (l, t, w, h) in [(1e9, f64::NAN, 0.0, 0.0), (-5.0, 0.0, 0.0, 3.0), (0.0, 0.0, 0.0, f64::INFINITY), (1.0, 1.0, 2.0, 2.0)] {
            let mut dst = Image::new(4, 4, PixelType::U8);
            let mut r = Resizer::new();
            let o = ResizeOptions::new().crop(l, t, w, h);
            println!("crop({l}, {t}, {w}, {h}): {:?}", r.resize(&src, &mut dst, &o));
        }
    }
    if want("oversized-dst") {
        let mut pixels = vec![U8::new(9); 32];
        let src = TypedImage::<U8>::from_pixels(8, 8, vec![U8::new(100); 64]).unwrap();
        {
            let mut dst = TypedImage::<U8>::from_pixels_slice(4, 4, &mut pixels).unwrap();
            let mut r = Resizer::new();
            let o = ResizeOptions::new().crop(0., 0., 8., 4.).resize_alg(ResizeAlg::Convolution(FilterType::Box));
            r.resize_typed(&src, &mut dst, &o).unwrap();
        }
        let tail: Vec<u8> = pixels[16..24].iter().map(|p| p.0).collect();
        println!("dst 4x4 over 32 px slice: pixels[16..24] = {tail:?} (9 = untouched)");
    }
    if want("u16x2-divide") {
        for (c, a) in [(40000u16, 20000u16), (40000, 1), (65535, 32768), (500, 0), (0, 0), (1, 2)] {
            for ext in [CpuExtensions::None, CpuExtensions::Sse4_1, CpuExtensions::Avx2] {
                if !ext.is_supported() { continue; }
                guard(&format!("U16x2 divide c={c} a={a} {ext:?}"), || {
                    let mut md = MulDiv::new();
                    unsafe { md.set_cpu_extensions(ext) };
                    let mut img = TypedImage::<U16x2>::from_pixels(16, 1, vec![U16x2::new([c, a]); 16]).unwrap();
                    md.divide_alpha_inplace_typed(&mut img).unwrap();
                    img.pixels()[0].0
                });
            }
        }
    }
    if want("u16x4-divide") {
        use fr::pixels::U16x4;
        for (c, a) in [(40000u16, 20000u16), (40000, 1), (65535, 32768), (500, 0), (0, 0), (1, 2)] {
            for ext in [CpuExtensions::None, CpuExtensions::Sse4_1, CpuExtensions::Avx2] {
                if !ext.is_supported() { continue; }
                guard(&format!("U16x4 divide c={c} a={a} {ext:?}"), || {
                    let mut md = MulDiv::new();
                    unsafe { md.set_cpu_extensions(ext) };
                    let mut img = TypedImage::<U16x4>::from_pixels(7, 1, vec![U16x4::new([c, c / 2, 0, a]); 7]).unwrap();
                    md.divide_alpha_inplace_typed(&mut img).unwrap();
                    (img.pixels()[0].0, img.pixels()[6].0)
                });
            }
        }
    }
    if want("precision-hole") {
        // custom kernel whose largest normalised weight is in [8,16) => Normalizer16 precision 11
        let filt = fr::Filter::new("sharp", sharp, 1.5).unwrap();
        for ext in [CpuExtensions::None, CpuExtensions::Sse4_1, CpuExtensions::Avx2] {
            if !ext.is_supported() { continue; }
            guard(&format!("custom filter (precision 11) U8x4 16x8->16x16 {ext:?}"), || {
                let src = Image::new(16, 8, PixelType::U8x4);
                let mut dst = Image::new(16, 16, PixelType::U8x4);
                let mut r = Resizer::new();
                unsafe { r.set_cpu_extensions(ext) };
                r.resize(&src, &mut dst, &ResizeOptions::new().use_alpha(false).resize_alg(ResizeAlg::Interpolation(FilterType::Custom(filt))))
            });
        }
    }
    if want("clip-index") {
        // sum |w| = 19 for the "sharp" kernel: 255 * 10 >> precision is far outside the
        // [-640, 639] range of CLIP8_LOOKUPS (debug_assert in Normalizer16::clip; unchecked read otherwise)
        let filt = fr::Filter::new("sharp", sharp, 1.5).unwrap();
        guard("custom filter with sum|w|=19, native U8 8x8->8x16, impulse image", || {
            let mut src = Image::new(8, 8, PixelType::U8);
            for (i, b) in src.buffer_mut().iter_mut().enumerate() { *b = if (i / 8) % 2 == 0 { 255 } else { 0 }; }
            let mut dst = Image::new(8, 16, PixelType::U8);
            let mut r = Resizer::new();
            unsafe { r.set_cpu_extensions(CpuExtensions::None) };
            r.resize(&src, &mut dst, &ResizeOptions::new().resize_alg(ResizeAlg::Interpolation(FilterType::Custom(filt)))).map(|_| dst.buffer()[..16].to_vec())
        });
    }
    if want("depth-sign") {
        let src = TypedImage::<I32>::from_pixels(2, 1, vec![I32::new(-1_000_000_000), I32::new(1_000_000_000)]).unwrap();
        let mut dst = TypedImage::<F32>::new(2, 1);
        fr::change_type_of_pixel_components_typed(&src, &mut dst).unwrap();
        println!("I32->F32: -1e9 -> {:?}, +1e9 -> {:?}", dst.pixels()[0].0, dst.pixels()[1].0);
        let src = TypedImage::<F32>::from_pixels(3, 1, vec![F32::new(-0.5), F32::new(-0.25), F32::new(0.5)]).unwrap();
        let mut dst = TypedImage::<I32>::new(3, 1);
        fr::change_type_of_pixel_components_typed(&src, &mut dst).unwrap();
        println!("F32->I32: -0.5 -> {:?}, -0.25 -> {:?}, +0.5 -> {:?}", dst.pixels()[0].0, dst.pixels()[1].0, dst.pixels()[2].0);
    }
    if want("depth-i32-max") {
        // widening to I32: the maximum of the source range does not reach i32::MAX
        let src = TypedImage::<U8>::from_pixels(2, 1, vec![U8::new(0), U8::new(255)]).unwrap();
        let mut dst = TypedImage::<I32>::new(2, 1);
        fr::change_type_of_pixel_components_typed(&src, &mut dst).unwrap();
        println!("U8->I32: 0 -> {:?}, 255 -> {:?} (i32::MAX = {})", dst.pixels()[0].0, dst.pixels()[1].0, i32::MAX);
        let src = TypedImage::<fr::pixels::U16>::from_pixels(2, 1, vec![fr::pixels::U16::new(0), fr::pixels::U16::new(65535)]).unwrap();
        let mut dst = TypedImage::<I32>::new(2, 1);
        fr::change_type_of_pixel_components_typed(&src, &mut dst).unwrap();
        println!("U16->I32: 0 -> {:?}, 65535 -> {:?}", dst.pixels()[0].0, dst.pixels()[1].0);
    }
    if want("split-zero-width") {
        let v = MyView { w: 0, h: 5, row: vec![] };
        guard("user view 0x5 .split_by_height(0,5,2) (default impl)", || {
            v.split_by_height(0, NonZeroU32::new(5).unwrap(), NonZeroU32::new(2).unwrap()).map(|v| v.len())
        });
    }
    if want("split-zero-height") {
        let img = TypedImage::<U8>::new(5, 0);
        guard("TypedImage 5x0 .split_by_width(0,5,2)", || {
            img.split_by_width(0, NonZeroU32::new(5).unwrap(), NonZeroU32::new(2).unwrap()).map(|v| v.len())
        });
    }
    #[cfg(feature = "rayon")]
    if want("rayon-area") {
        let pool = rayon::ThreadPoolBuilder::new().num_threads(4).build().unwrap();
        guard("rayon: 2x65536 -> 2x65536/.. horizontal pass on 65536 rows", || {
            pool.install(|| {
                let src = Image::new(4, 65536, PixelType::U8);
                let mut dst = Image::new(2, 65536, PixelType::U8);
                let mut r = Resizer::new();
                r.resize(&src, &mut dst, &ResizeOptions::new().resize_alg(ResizeAlg::Convolution(FilterType::Box)))
            })
        });
    }
    let _ = (|| -> Option<()> { let mut t = TypedImage::<U8>::new(1, 1); let _ = t.iter_rows_mut(0).count(); None })();
}
