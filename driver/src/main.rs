//! firdrv — fact extractor for the static verification of fast_image_resize.
//!
//! Runs as RUSTC_WORKSPACE_WRAPPER (argv[1] is the real rustc path and is dropped).
//! For the crate named in FIRDRV_CRATE (default `fast_image_resize`) it dumps, after
//! analysis, the type-checked program (items + MIR at mir-opt-level 0) as one JSON file
//! FIRDRV_OUT. Nothing of the analysed crate is executed.
#![feature(rustc_private)]

extern crate rustc_abi;
extern crate rustc_driver;
extern crate rustc_hir;
extern crate rustc_interface;
extern crate rustc_middle;
extern crate rustc_span;

mod json;

use json::J;
use rustc_driver::Compilation;
use rustc_hir::def::DefKind;
use rustc_hir::def_id::{DefId, LocalDefId, LOCAL_CRATE};
use rustc_middle::mir::{self, interpret::Scalar};
use rustc_middle::ty::print::with_no_trimmed_paths;
use rustc_middle::ty::{self, GenericArgKind, Ty, TyCtxt, TypingEnv};
use rustc_span::Span;
use std::collections::BTreeMap;

struct Cb;

impl rustc_driver::Callbacks for Cb {
    fn after_analysis<'tcx>(
        &mut self,
        _c: &rustc_interface::interface::Compiler,
        tcx: TyCtxt<'tcx>,
    ) -> Compilation {
        let want = std::env::var("FIRDRV_CRATE").unwrap_or_else(|_| "fast_image_resize".into());
        let name = tcx.crate_name(LOCAL_CRATE).to_string();
        if name != want {
            return Compilation::Continue;
        }
        // build scripts / proc macros of the same name are not expected; lib only.
        let Ok(out) = std::env::var("FIRDRV_OUT") else {
            return Compilation::Continue;
        };
        let j = with_no_trimmed_paths!(Ex { tcx }.dump_crate());
        let mut s = String::with_capacity(64 << 20);
        j.write(&mut s);
        let tmp = format!("{out}.tmp{}", std::process::id());
        std::fs::write(&tmp, s).expect("write facts");
        std::fs::rename(&tmp, &out).expect("rename facts");
        Compilation::Continue
    }
}

fn main() {
    let mut args: Vec<String> = std::env::args().collect();
    // RUSTC_WORKSPACE_WRAPPER convention: argv[1] is the path of rustc.
    if args.len() > 1 && (args[1].ends_with("rustc") || args[1].contains("/rustc")) {
        args.remove(1);
    }
    rustc_driver::run_compiler(&args, &mut Cb);
}

struct Ex<'tcx> {
    tcx: TyCtxt<'tcx>,
}

fn s(x: impl Into<String>) -> J {
    J::Str(x.into())
}
fn n(x: impl Into<i128>) -> J {
    J::Num(x.into())
}
fn arr(v: Vec<J>) -> J {
    J::Arr(v)
}
fn obj(v: Vec<(&str, J)>) -> J {
    J::Obj(v.into_iter().map(|(k, v)| (k.to_string(), v)).collect())
}

impl<'tcx> Ex<'tcx> {
    fn id(&self, d: DefId) -> String {
        let krate = self.tcx.crate_name(d.krate);
        format!("{}{}", krate, self.tcx.def_path(d).to_string_no_crate_verbose())
    }

    fn name(&self, d: DefId) -> String {
        self.tcx.def_path_str(d)
    }

    fn span_info(&self, sp: Span) -> (String, i128, Vec<String>) {
        let sm = self.tcx.sess.source_map();
        let mut macros = Vec::new();
        for ex in sp.macro_backtrace() {
            macros.push(ex.kind.descr());
        }
        // location of the outermost call site (where the user wrote the macro call) and of
        // the innermost definition site are both useful; we report the innermost source line.
        let lo = sm.lookup_char_pos(sp.lo());
        let file = format!("{}", lo.file.name.prefer_local_unconditionally());
        (file, lo.line as i128, macros)
    }

    fn line_macro(&self, sp: Span) -> (J, J) {
        let (file, line, macros) = self.span_info(sp);
        let short = file.rsplit_once("/src/").map(|x| x.1.to_string()).unwrap_or(file);
        let m = if macros.is_empty() {
            J::Null
        } else {
            arr(macros.into_iter().map(s).collect())
        };
        (s(format!("{short}:{line}")), m)
    }

    fn ty(&self, t: Ty<'tcx>) -> J {
        s(self.ty_str(t))
    }

    fn ty_str(&self, t: Ty<'tcx>) -> String {
        match t.kind() {
            ty::Closure(d, _) => format!("{{closure:{}}}", self.id(*d)),
            ty::FnDef(d, _) => format!("{{fn:{}}}", self.id(*d)),
            ty::Ref(_, inner, m) => {
                if matches!(inner.kind(), ty::Closure(..) | ty::FnDef(..)) {
                    format!("&{}{}", if m.is_mut() { "mut " } else { "" }, self.ty_str(*inner))
                } else {
                    t.to_string()
                }
            }
            _ => t.to_string(),
        }
    }

    fn generic_args(&self, args: ty::GenericArgsRef<'tcx>, env: TypingEnv<'tcx>) -> J {
        let mut v = Vec::new();
        for a in args.iter() {
            match a.kind() {
                GenericArgKind::Lifetime(_) => {}
                GenericArgKind::Type(t) => v.push(arr(vec![s("t"), self.ty(t)])),
                GenericArgKind::Const(c) => {
                    let val = match c.try_to_value() {
                        Some(vt) => match vt.try_to_leaf() {
                            Some(si) => self.scalar_int_json(si, vt.ty),
                            None => s(format!("{c}")),
                        },
                        None => {
                            let _ = env;
                            s(format!("{c}"))
                        }
                    };
                    v.push(arr(vec![s("c"), val]));
                }
            }
        }
        arr(v)
    }

    fn scalar_int_json(&self, si: ty::ScalarInt, t: Ty<'tcx>) -> J {
        let size = si.size();
        let bits = si.to_bits(size);
        match t.kind() {
            ty::Bool => J::Bool(bits != 0),
            ty::Int(_) => {
                let nb = size.bits();
                let v = if nb == 128 {
                    bits as i128
                } else {
                    let sh = 128 - nb;
                    ((bits << sh) as i128) >> sh
                };
                J::Num(v)
            }
            ty::Uint(_) | ty::Char => {
                if bits > i128::MAX as u128 {
                    s(format!("{bits}"))
                } else {
                    J::Num(bits as i128)
                }
            }
            ty::Float(ft) => match ft.bit_width() {
                32 => arr(vec![s("f"), s(format!("{:?}", f32::from_bits(bits as u32) as f64))]),
                64 => arr(vec![s("f"), s(format!("{:?}", f64::from_bits(bits as u64)))]),
                _ => arr(vec![s("fbits"), s(format!("{bits}"))]),
            },
            _ => arr(vec![s("bits"), s(format!("{bits}")), n(size.bytes() as i128)]),
        }
    }

    fn const_operand(&self, c: &mir::ConstOperand<'tcx>, env: TypingEnv<'tcx>) -> J {
        let t = c.const_.ty();
        let tyj = self.ty(t);
        if let ty::FnDef(d, args) = t.kind() {
            return arr(vec![s("k"), tyj, arr(vec![s("fn"), self.callee_json(*d, args, env)])]);
        }
        if let Some(si) = c.const_.try_eval_scalar_int(self.tcx, env) {
            let mut v = vec![s("k"), tyj, self.scalar_int_json(si, t)];
            // a whole enum value that fits one scalar (`const X: Result<(), E> = Err(E::V)`):
            // name the variant the tag selects
            if let Some(name) = self.scalar_enum_variant(si, t, env) {
                v.push(arr(vec![s("variant"), s(name)]));
            }
            return arr(v);
        }
        // pointers to statics: name the static
        if !matches!(c.const_, mir::Const::Unevaluated(..)) || true {
            if let Some(Scalar::Ptr(p, _)) = c.const_.try_eval_scalar(self.tcx, env) {
                let aid = p.provenance.alloc_id();
                if let Some(rustc_middle::mir::interpret::GlobalAlloc::Static(d)) =
                    self.tcx.try_get_global_alloc(aid)
                {
                    return arr(vec![s("k"), tyj, arr(vec![s("static"), s(self.id(d))])]);
                }
            }
        }
        // string literals and other non-scalar constants
        let txt = format!("{}", c.const_);
        if let mir::Const::Unevaluated(u, _) = c.const_ {
            if let Some(pr) = u.promoted {
                return arr(vec![
                    s("k"),
                    tyj,
                    arr(vec![s("promoted"), s(self.id(u.def)), n(pr.as_u32() as i128)]),
                ]);
            }
        }
        let mut v = vec![s("k"), tyj, arr(vec![s("?"), s(txt)])];
        if let mir::Const::Unevaluated(u, _) = c.const_ {
            v.push(s(self.id(u.def)));
        }
        arr(v)
    }

    /// variant of an enum value that is represented by one scalar (the tag at offset 0 is the
    /// whole value), decoded from the layout: direct tags through the discriminants, niche tags
    /// through the niche range (everything outside it is the untagged variant)
    fn scalar_enum_variant(&self, si: ty::ScalarInt, t: Ty<'tcx>, env: TypingEnv<'tcx>) -> Option<String> {
        let ty::Adt(adt, _) = t.kind() else { return None };
        if !adt.is_enum() {
            return None;
        }
        let layout = self.tcx.layout_of(env.as_query_input(t)).ok()?;
        if layout.size != si.size() {
            return None;
        }
        let bits = si.to_bits(si.size());
        match &layout.variants {
            rustc_abi::Variants::Multiple { tag, tag_encoding, tag_field, .. } => {
                if layout.fields.offset(tag_field.as_usize()).bytes() != 0 || tag.size(&self.tcx) != si.size() {
                    return None;
                }
                match tag_encoding {
                    rustc_abi::TagEncoding::Direct => {
                        for (idx, discr) in adt.discriminants(self.tcx) {
                            let mask = if si.size().bits() >= 128 { u128::MAX } else { (1u128 << si.size().bits()) - 1 };
                            if discr.val & mask == bits {
                                return Some(adt.variant(idx).name.to_string());
                            }
                        }
                        None
                    }
                    rustc_abi::TagEncoding::Niche { untagged_variant, niche_variants, niche_start } => {
                        let mask = if si.size().bits() >= 128 { u128::MAX } else { (1u128 << si.size().bits()) - 1 };
                        let rel = bits.wrapping_sub(*niche_start) & mask;
                        let first = niche_variants.start().as_u32() as u128;
                        let last = niche_variants.end().as_u32() as u128;
                        if rel <= last - first {
                            let idx = rustc_abi::VariantIdx::from_u32((first + rel) as u32);
                            Some(adt.variant(idx).name.to_string())
                        } else {
                            Some(adt.variant(*untagged_variant).name.to_string())
                        }
                    }
                }
            }
            _ => None,
        }
    }

    fn callee_json(&self, d: DefId, args: ty::GenericArgsRef<'tcx>, env: TypingEnv<'tcx>) -> J {
        let tcx = self.tcx;
        let mut o: Vec<(&str, J)> = vec![
            ("id", s(self.id(d))),
            ("name", s(self.name(d))),
            ("args", self.generic_args(args, env)),
        ];
        if let Some(assoc) = tcx.opt_associated_item(d) {
            if let Some(tr) = assoc.trait_container(tcx) {
                o.push(("trait", s(self.id(tr))));
                o.push(("method", s(assoc.name().to_string())));
                if args.len() > 0 {
                    if let Some(t0) = args.get(0).and_then(|a| a.as_type()) {
                        o.push(("self_ty", self.ty(t0)));
                    }
                }
            } else if let Some(imp) = assoc.impl_container(tcx) {
                o.push(("impl", s(self.id(imp))));
                if let Some(tr) = tcx.impl_opt_trait_id(imp) {
                    o.push(("impl_trait", s(self.id(tr))));
                }
            }
        }
        if matches!(tcx.def_kind(d), DefKind::Fn | DefKind::AssocFn) {
            let erased = tcx.erase_and_anonymize_regions(args);
            if let Ok(Some(inst)) = ty::Instance::try_resolve(tcx, env, d, erased) {
                let rd = inst.def_id();
                if rd != d {
                    o.push(("res", s(self.id(rd))));
                }
            }
            let sig = tcx.fn_sig(d).skip_binder();
            if sig.safety().is_unsafe() {
                o.push(("unsafe", J::Bool(true)));
            }
            if d.krate != LOCAL_CRATE {
                let tf = &tcx.codegen_fn_attrs(d).target_features;
                if !tf.is_empty() {
                    o.push((
                        "tf",
                        arr(tf.iter().map(|f| s(f.name.to_string())).collect()),
                    ));
                }
            }
        }
        obj(o)
    }

    fn place(&self, body: &mir::Body<'tcx>, p: mir::Place<'tcx>) -> J {
        let mut v = vec![n(p.local.as_u32() as i128)];
        for (base, elem) in p.iter_projections() {
            use mir::ProjectionElem as PE;
            let e = match elem {
                PE::Deref => s("*"),
                PE::Field(f, _) => {
                    let bty = base.ty(&body.local_decls, self.tcx);
                    let mut name = J::Null;
                    if let ty::Adt(adt, _) = bty.ty.kind() {
                        let vi = bty.variant_index.unwrap_or(rustc_abi::FIRST_VARIANT);
                        if adt.is_enum() || adt.is_struct() || adt.is_union() {
                            if let Some(vd) = adt.variants().get(vi) {
                                if let Some(fd) = vd.fields.get(f) {
                                    name = s(fd.name.to_string());
                                }
                            }
                        }
                    }
                    arr(vec![s("f"), n(f.as_u32() as i128), name])
                }
                PE::Index(l) => arr(vec![s("i"), n(l.as_u32() as i128)]),
                PE::ConstantIndex { offset, min_length, from_end } => arr(vec![
                    s("ci"),
                    n(offset as i128),
                    n(min_length as i128),
                    J::Bool(from_end),
                ]),
                PE::Subslice { from, to, from_end } => {
                    arr(vec![s("sub"), n(from as i128), n(to as i128), J::Bool(from_end)])
                }
                PE::Downcast(name, vi) => arr(vec![
                    s("dc"),
                    n(vi.as_u32() as i128),
                    name.map(|x| s(x.to_string())).unwrap_or(J::Null),
                ]),
                PE::OpaqueCast(_) => s("oc"),
                PE::UnwrapUnsafeBinder(_) => s("uub"),
            };
            v.push(e);
        }
        arr(v)
    }

    fn operand(&self, body: &mir::Body<'tcx>, o: &mir::Operand<'tcx>, env: TypingEnv<'tcx>) -> J {
        match o {
            mir::Operand::Copy(p) => arr(vec![s("c"), self.place(body, *p)]),
            mir::Operand::Move(p) => arr(vec![s("m"), self.place(body, *p)]),
            mir::Operand::Constant(c) => self.const_operand(c, env),
            other => arr(vec![s("k"), s("?"), arr(vec![s("?"), s(format!("{other:?}"))])]),
        }
    }

    fn rvalue(&self, body: &mir::Body<'tcx>, r: &mir::Rvalue<'tcx>, env: TypingEnv<'tcx>) -> J {
        use mir::Rvalue as R;
        match r {
            R::Use(o, _) => arr(vec![s("use"), self.operand(body, o, env)]),
            R::Repeat(o, c) => arr(vec![s("rep"), self.operand(body, o, env), s(format!("{c}"))]),
            R::Ref(_, bk, p) => {
                let k = match bk {
                    mir::BorrowKind::Shared => "shared",
                    mir::BorrowKind::Fake(_) => "fake",
                    mir::BorrowKind::Mut { .. } => "mut",
                };
                arr(vec![s("ref"), s(k), self.place(body, *p)])
            }
            R::RawPtr(k, p) => arr(vec![s("raw"), s(format!("{k:?}")), self.place(body, *p)]),
            R::Cast(k, o, t) => {
                let ks = match k {
                    mir::CastKind::PointerCoercion(pc, _) => format!("PointerCoercion({pc:?})"),
                    other => format!("{other:?}"),
                };
                arr(vec![s("cast"), s(ks), self.operand(body, o, env), self.ty(*t)])
            }
            R::BinaryOp(op, ab) => arr(vec![
                s("bin"),
                s(format!("{op:?}")),
                self.operand(body, &ab.0, env),
                self.operand(body, &ab.1, env),
            ]),
            R::UnaryOp(op, a) => {
                arr(vec![s("un"), s(format!("{op:?}")), self.operand(body, a, env)])
            }
            R::Discriminant(p) => arr(vec![s("discr"), self.place(body, *p)]),
            R::Aggregate(k, ops) => {
                let opsj = arr(ops.iter().map(|o| self.operand(body, o, env)).collect());
                match &**k {
                    mir::AggregateKind::Array(t) => {
                        arr(vec![s("agg"), s("array"), self.ty(*t), J::Null, opsj])
                    }
                    mir::AggregateKind::Tuple => {
                        arr(vec![s("agg"), s("tuple"), J::Null, J::Null, opsj])
                    }
                    mir::AggregateKind::Adt(d, vi, args, _, _) => {
                        let adt = self.tcx.adt_def(*d);
                        let vname = adt.variant(*vi).name.to_string();
                        arr(vec![
                            s("agg"),
                            s("adt"),
                            s(self.id(*d)),
                            arr(vec![n(vi.as_u32() as i128), s(vname)]),
                            opsj,
                            self.generic_args(args, env),
                        ])
                    }
                    mir::AggregateKind::Closure(d, _) => {
                        arr(vec![s("agg"), s("closure"), s(self.id(*d)), J::Null, opsj])
                    }
                    mir::AggregateKind::RawPtr(t, m) => arr(vec![
                        s("agg"),
                        s("rawptr"),
                        self.ty(*t),
                        J::Bool(m.is_mut()),
                        opsj,
                    ]),
                    other => arr(vec![s("agg"), s("other"), s(format!("{other:?}")), J::Null, opsj]),
                }
            }
            R::CopyForDeref(p) => arr(vec![s("use"), arr(vec![s("c"), self.place(body, *p)])]),
            other => arr(vec![s("other"), s(format!("{other:?}"))]),
        }
    }

    fn body_json(&self, def: LocalDefId, body: &mir::Body<'tcx>) -> J {
        let tcx = self.tcx;
        let env = TypingEnv::post_analysis(tcx, def);
        // locals
        let mut names: BTreeMap<u32, String> = BTreeMap::new();
        for vdi in &body.var_debug_info {
            if let mir::VarDebugInfoContents::Place(p) = &vdi.value {
                if p.projection.is_empty() {
                    names.entry(p.local.as_u32()).or_insert(vdi.name.to_string());
                }
            }
        }
        let mut locals = Vec::new();
        for (l, decl) in body.local_decls.iter_enumerated() {
            let size = match tcx.layout_of(env.as_query_input(decl.ty)) {
                Ok(lay) => n(lay.size.bytes() as i128),
                Err(_) => J::Null,
            };
            locals.push(arr(vec![
                self.ty(decl.ty),
                names.get(&l.as_u32()).map(|x| s(x.clone())).unwrap_or(J::Null),
                size,
            ]));
        }
        // upvar debug names (closures): var_debug_info with projections from _1
        let mut upvars = Vec::new();
        for vdi in &body.var_debug_info {
            if let mir::VarDebugInfoContents::Place(p) = &vdi.value {
                if !p.projection.is_empty() {
                    upvars.push(arr(vec![s(vdi.name.to_string()), self.place(body, *p)]));
                }
            }
        }
        let mut blocks = Vec::new();
        for (_bb, data) in body.basic_blocks.iter_enumerated() {
            let mut stmts = Vec::new();
            for st in &data.statements {
                use mir::StatementKind as SK;
                match &st.kind {
                    SK::Assign(b) => {
                        let (lm, mac) = self.line_macro(st.source_info.span);
                        stmts.push(arr(vec![
                            s("a"),
                            self.place(body, b.0),
                            self.rvalue(body, &b.1, env),
                            lm,
                            mac,
                        ]));
                    }
                    SK::SetDiscriminant { place, variant_index } => {
                        stmts.push(arr(vec![
                            s("sd"),
                            self.place(body, **place),
                            n(variant_index.as_u32() as i128),
                        ]));
                    }
                    SK::Intrinsic(i) => stmts.push(arr(vec![s("intr"), s(format!("{i:?}"))])),
                    _ => {}
                }
            }
            let term = data.terminator();
            let (lm, mac) = self.line_macro(term.source_info.span);
            use mir::TerminatorKind as TK;
            let bbn = |b: mir::BasicBlock| n(b.as_u32() as i128);
            let unwind = |u: &mir::UnwindAction| match u {
                mir::UnwindAction::Cleanup(b) => bbn(*b),
                _ => J::Null,
            };
            let t = match &term.kind {
                TK::Goto { target } => arr(vec![s("goto"), bbn(*target)]),
                TK::SwitchInt { discr, targets } => {
                    let dty = discr.ty(&body.local_decls, tcx);
                    let mut arms = Vec::new();
                    for (v, b) in targets.iter() {
                        let vj = match dty.kind() {
                            ty::Int(it) => {
                                let nb = it.bit_width().unwrap_or(64) as u32;
                                let sh = 128 - nb;
                                J::Num(((v << sh) as i128) >> sh)
                            }
                            _ => {
                                if v > i128::MAX as u128 {
                                    s(format!("{v}"))
                                } else {
                                    J::Num(v as i128)
                                }
                            }
                        };
                        arms.push(arr(vec![vj, bbn(b)]));
                    }
                    arr(vec![
                        s("sw"),
                        self.operand(body, discr, env),
                        arr(arms),
                        bbn(targets.otherwise()),
                        self.ty(dty),
                        lm,
                        mac,
                    ])
                }
                TK::Return => arr(vec![s("ret")]),
                TK::Unreachable => arr(vec![s("unreach")]),
                TK::UnwindResume => arr(vec![s("resume")]),
                TK::UnwindTerminate(_) => arr(vec![s("abort")]),
                TK::Drop { place, target, unwind: u, .. } => {
                    arr(vec![s("drop"), self.place(body, *place), bbn(*target), unwind(u)])
                }
                TK::Call { func, args, destination, target, unwind: u, .. } => {
                    let callee = match func {
                        mir::Operand::Constant(c) => match c.const_.ty().kind() {
                            ty::FnDef(d, ga) => self.callee_json(*d, ga, env),
                            _ => obj(vec![("op", self.operand(body, func, env))]),
                        },
                        _ => obj(vec![("op", self.operand(body, func, env))]),
                    };
                    arr(vec![
                        s("call"),
                        callee,
                        arr(args.iter().map(|a| self.operand(body, &a.node, env)).collect()),
                        self.place(body, *destination),
                        target.map(bbn).unwrap_or(J::Null),
                        unwind(u),
                        lm,
                        mac,
                    ])
                }
                TK::TailCall { func, args, .. } => arr(vec![
                    s("tailcall"),
                    self.operand(body, func, env),
                    arr(args.iter().map(|a| self.operand(body, &a.node, env)).collect()),
                ]),
                TK::Assert { cond, expected, msg, target, unwind: u } => {
                    use mir::AssertKind as AK;
                    let (kind, ops): (String, Vec<&mir::Operand<'tcx>>) = match &**msg {
                        AK::BoundsCheck { len, index } => ("BoundsCheck".into(), vec![len, index]),
                        AK::Overflow(op, a, b) => (format!("Overflow({op:?})"), vec![a, b]),
                        AK::OverflowNeg(a) => ("OverflowNeg".into(), vec![a]),
                        AK::DivisionByZero(a) => ("DivisionByZero".into(), vec![a]),
                        AK::RemainderByZero(a) => ("RemainderByZero".into(), vec![a]),
                        AK::MisalignedPointerDereference { required, found } => {
                            ("MisalignedPointerDereference".into(), vec![required, found])
                        }
                        AK::NullPointerDereference => ("NullPointerDereference".into(), vec![]),
                        other => (format!("{other:?}"), vec![]),
                    };
                    arr(vec![
                        s("assert"),
                        self.operand(body, cond, env),
                        J::Bool(*expected),
                        s(kind),
                        arr(ops.into_iter().map(|o| self.operand(body, o, env)).collect()),
                        bbn(*target),
                        unwind(u),
                        lm,
                        mac,
                    ])
                }
                TK::FalseEdge { real_target, .. } => arr(vec![s("goto"), bbn(*real_target)]),
                TK::FalseUnwind { real_target, .. } => arr(vec![s("goto"), bbn(*real_target)]),
                other => arr(vec![s("other"), s(format!("{other:?}"))]),
            };
            blocks.push(obj(vec![
                ("s", arr(stmts)),
                ("t", t),
                ("c", J::Bool(data.is_cleanup)),
            ]));
        }
        obj(vec![
            ("arg_count", n(body.arg_count as i128)),
            ("locals", arr(locals)),
            ("upvars", arr(upvars)),
            ("blocks", arr(blocks)),
        ])
    }

    fn fn_json(&self, def: LocalDefId) -> Option<(String, J)> {
        let tcx = self.tcx;
        let did = def.to_def_id();
        let kind = tcx.def_kind(did);
        let kind_s = match kind {
            DefKind::Fn => "fn",
            DefKind::AssocFn => "assoc",
            DefKind::Closure => "closure",
            _ => return None,
        };
        if !tcx.is_mir_available(did) {
            return None;
        }
        let body = tcx.optimized_mir(did);
        let mut o: Vec<(&str, J)> = vec![
            ("name", s(self.name(did))),
            ("kind", s(kind_s)),
        ];
        let (file, line, _) = self.span_info(tcx.def_span(did));
        let short = file.rsplit_once("/src/").map(|x| x.1.to_string()).unwrap_or(file);
        o.push(("file", s(short)));
        o.push(("line", n(line)));
        let sm = tcx.sess.source_map();
        let hi = sm.lookup_char_pos(body.span.hi()).line as i128;
        o.push(("line_hi", n(hi)));
        let mut mb = Vec::new();
        for ex in tcx.def_span(did).macro_backtrace() {
            mb.push(s(ex.kind.descr()));
        }
        if !mb.is_empty() {
            o.push(("macro", arr(mb)));
        }
        if kind == DefKind::Closure {
            let parent = tcx.typeck_root_def_id(did);
            o.push(("root", s(self.id(parent))));
            o.push(("parent", s(self.id(tcx.parent(did)))));
            let mut caps = Vec::new();
            for c in tcx.closure_captures(def) {
                caps.push(arr(vec![
                    s(c.to_string(tcx)),
                    s(format!("{:?}", c.info.capture_kind)),
                ]));
            }
            o.push(("captures", arr(caps)));
        } else {
            let sig = tcx.fn_sig(did).skip_binder().skip_binder();
            o.push(("unsafe", J::Bool(sig.safety().is_unsafe())));
            o.push(("inputs", arr(sig.inputs().iter().map(|t| self.ty(*t)).collect())));
            o.push(("output", self.ty(sig.output())));
            let vis = tcx.visibility(did);
            o.push(("pub", J::Bool(vis.is_public())));
            let ev = tcx.effective_visibilities(());
            o.push(("reachable", J::Bool(ev.is_reachable(def))));
            let g = tcx.generics_of(did);
            let mut gs = Vec::new();
            for i in 0..g.count() {
                let p = g.param_at(i, tcx);
                gs.push(arr(vec![s(p.name.to_string()), s(format!("{:?}", p.kind.descr()))]));
            }
            o.push(("generics", arr(gs)));
            if let Some(assoc) = tcx.opt_associated_item(did) {
                if let Some(imp) = assoc.impl_container(tcx) {
                    o.push(("impl", s(self.id(imp))));
                    o.push(("self_ty", self.ty(tcx.type_of(imp).skip_binder())));
                    if let Some(tr) = tcx.impl_opt_trait_id(imp) {
                        o.push(("impl_trait", s(self.id(tr))));
                    }
                } else if let Some(tr) = assoc.trait_container(tcx) {
                    o.push(("trait_decl", s(self.id(tr))));
                }
                o.push(("method", s(assoc.name().to_string())));
            }
        }
        let attrs = tcx.codegen_fn_attrs(did);
        if !attrs.target_features.is_empty() {
            o.push((
                "tf",
                arr(attrs.target_features.iter().map(|f| s(f.name.to_string())).collect()),
            ));
        }
        o.push(("inline", s(format!("{:?}", attrs.inline))));
        o.push(("body", self.body_json(def, body)));
        let promoted = tcx.promoted_mir(did);
        if !promoted.is_empty() {
            o.push((
                "promoted",
                arr(promoted.iter().map(|b| self.body_json(def, b)).collect()),
            ));
        }
        Some((self.id(did), obj(o)))
    }

    fn alloc_array_json(&self, t: Ty<'tcx>, bytes: &[u8]) -> Option<J> {
        // arrays of unsigned/signed ints only
        let ty::Array(elem, _) = t.kind() else { return None };
        let (sz, signed) = match elem.kind() {
            ty::Uint(u) => ((u.bit_width().unwrap_or(64) / 8) as usize, false),
            ty::Int(i) => ((i.bit_width().unwrap_or(64) / 8) as usize, true),
            _ => return None,
        };
        if sz == 0 || sz > 8 || bytes.len() % sz != 0 {
            return None;
        }
        let len = bytes.len() / sz;
        let mut vals: Vec<i128> = Vec::with_capacity(len);
        for i in 0..len {
            let mut v: u64 = 0;
            for (k, b) in bytes[i * sz..(i + 1) * sz].iter().enumerate() {
                v |= (*b as u64) << (8 * k);
            }
            let x = if signed {
                let sh = 64 - 8 * sz as u32;
                (((v << sh) as i64) >> sh) as i128
            } else {
                v as i128
            };
            vals.push(x);
        }
        let min = vals.iter().copied().min().unwrap_or(0);
        let max = vals.iter().copied().max().unwrap_or(0);
        let argmax = vals.iter().position(|v| *v == max).unwrap_or(0);
        let mut o = vec![
            ("ty", self.ty(t)),
            ("len", n(len as i128)),
            ("elem_size", n(sz as i128)),
            ("min", n(min)),
            ("max", n(max)),
            ("argmax", n(argmax as i128)),
        ];
        if len <= 70000 {
            o.push(("values", arr(vals.iter().map(|v| n(*v)).collect())));
        }
        Some(obj(o))
    }

    fn dump_crate(&self) -> J {
        let tcx = self.tcx;
        let mut fns = Vec::new();
        for def in tcx.hir_body_owners() {
            if let Some((id, j)) = self.fn_json(def) {
                fns.push((id, j));
            }
        }
        let mut adts = Vec::new();
        let mut statics = Vec::new();
        let mut impls = Vec::new();
        let mut traits = Vec::new();
        for def in tcx.hir_crate_items(()).definitions() {
            let did = def.to_def_id();
            match tcx.def_kind(did) {
                DefKind::Struct | DefKind::Enum | DefKind::Union => {
                    let adt = tcx.adt_def(did);
                    let mut vs = Vec::new();
                    for (vi, vd) in adt.variants().iter_enumerated() {
                        let discr = if adt.is_enum() {
                            let d = adt.discriminant_for_variant(tcx, vi);
                            J::Num(d.val as i128)
                        } else {
                            J::Null
                        };
                        let fields = vd
                            .fields
                            .iter()
                            .map(|f| {
                                arr(vec![
                                    s(f.name.to_string()),
                                    self.ty(tcx.type_of(f.did).skip_binder()),
                                    J::Bool(f.vis.is_public()),
                                ])
                            })
                            .collect();
                        vs.push(obj(vec![
                            ("name", s(vd.name.to_string())),
                            ("discr", discr),
                            ("fields", arr(fields)),
                        ]));
                    }
                    let ev = tcx.effective_visibilities(());
                    adts.push((
                        self.id(did),
                        obj(vec![
                            ("name", s(self.name(did))),
                            ("kind", s(format!("{:?}", tcx.def_kind(did)))),
                            ("reachable", J::Bool(ev.is_reachable(def))),
                            ("variants", arr(vs)),
                        ]),
                    ));
                }
                DefKind::Static { .. } => {
                    let t = tcx.type_of(did).skip_binder();
                    if let Ok(alloc) = tcx.eval_static_initializer(did) {
                        let a = alloc.inner();
                        let bytes = a.inspect_with_uninit_and_ptr_outside_interpreter(0..a.len());
                        if let Some(j) = self.alloc_array_json(t, bytes) {
                            statics.push((self.id(did), j));
                        }
                    }
                }
                DefKind::Const { .. } => {
                    let t = tcx.type_of(did).skip_binder();
                    if tcx.generics_of(did).count() != 0 {
                        continue;
                    }
                    if let ty::Array(..) = t.kind() {
                        if let Ok(mir::ConstValue::Indirect { alloc_id, offset }) =
                            tcx.const_eval_poly(did)
                        {
                            let a = tcx.global_alloc(alloc_id).unwrap_memory().inner();
                            let off = offset.bytes() as usize;
                            let bytes = a.inspect_with_uninit_and_ptr_outside_interpreter(off..a.len());
                            if let Some(j) = self.alloc_array_json(t, bytes) {
                                statics.push((self.id(did), j));
                            }
                        }
                    } else if !(t.is_integral() || t.is_bool() || t.is_floating_point())
                        && !matches!(t.kind(), ty::Array(..))
                    {
                        // small non-scalar constants (SIMD masks): raw bytes
                        if let Ok(cv) = tcx.const_eval_poly(did) {
                            if let mir::ConstValue::Indirect { alloc_id, offset } = cv {
                                let a = tcx.global_alloc(alloc_id).unwrap_memory().inner();
                                let off = offset.bytes() as usize;
                                if a.len() - off <= 64 {
                                    let bytes = a.inspect_with_uninit_and_ptr_outside_interpreter(off..a.len());
                                    statics.push((
                                        self.id(did),
                                        obj(vec![
                                            ("ty", self.ty(t)),
                                            ("bytes", arr(bytes.iter().map(|b| n(*b as i128)).collect())),
                                        ]),
                                    ));
                                }
                            }
                        }
                    } else if t.is_integral() || t.is_bool() || t.is_floating_point() {
                        if let Ok(mir::ConstValue::Scalar(Scalar::Int(si))) = tcx.const_eval_poly(did) {
                            statics.push((
                                self.id(did),
                                obj(vec![("ty", self.ty(t)), ("value", self.scalar_int_json(si, t))]),
                            ));
                        }
                    }
                }
                DefKind::Impl { of_trait } => {
                    let self_ty = tcx.type_of(did).skip_binder();
                    let mut o = vec![
                        ("id", s(self.id(did))),
                        ("self_ty", self.ty(self_ty)),
                    ];
                    if let ty::Adt(a, _) = self_ty.kind() {
                        o.push(("self_adt", s(self.id(a.did()))));
                    }
                    if of_trait {
                        let hdr = tcx.impl_trait_header(did);
                        let tr = hdr.trait_ref.skip_binder();
                        o.push(("trait", s(self.id(tr.def_id))));
                        o.push(("trait_ref", s(format!("{tr}"))));
                        o.push(("unsafe", J::Bool(hdr.safety.is_unsafe())));
                        o.push(("polarity", s(format!("{:?}", hdr.polarity))));
                    }
                    let (lm, mac) = self.line_macro(tcx.def_span(did));
                    o.push(("at", lm));
                    o.push(("macro", mac));
                    let mut ms = Vec::new();
                    for it in tcx.associated_items(did).in_definition_order() {
                        if it.is_fn() {
                            ms.push((it.name().to_string(), s(self.id(it.def_id))));
                        }
                    }
                    o.push(("methods", J::Obj(ms)));
                    impls.push(obj(o));
                }
                DefKind::Trait => {
                    let mut ms = Vec::new();
                    for it in tcx.associated_items(did).in_definition_order() {
                        if it.is_fn() {
                            ms.push((
                                it.name().to_string(),
                                obj(vec![
                                    ("id", s(self.id(it.def_id))),
                                    ("default", J::Bool(it.defaultness(tcx).has_value())),
                                ]),
                            ));
                        }
                    }
                    let unsafety = tcx.trait_def(did).safety.is_unsafe();
                    traits.push((
                        self.id(did),
                        obj(vec![
                            ("name", s(self.name(did))),
                            ("unsafe", J::Bool(unsafety)),
                            ("methods", J::Obj(ms)),
                        ]),
                    ));
                }
                _ => {}
            }
        }
        let target = tcx.sess.target.llvm_target.to_string();
        let ptr_bits = tcx.data_layout.pointer_size().bits() as i128;
        let feats: Vec<J> = tcx
            .sess
            .unstable_target_features
            .iter()
            .map(|f| s(f.to_string()))
            .collect();
        obj(vec![
            (
                "config",
                obj(vec![
                    ("crate", s(tcx.crate_name(LOCAL_CRATE).to_string())),
                    ("target", s(target)),
                    ("ptr_bits", n(ptr_bits)),
                    ("target_features", arr(feats)),
                    ("nonce", s(std::env::var("FIRDRV_NONCE").unwrap_or_default())),
                    ("cfg_name", s(std::env::var("FIRDRV_CFG").unwrap_or_default())),
                    ("debug_assertions", J::Bool(tcx.sess.opts.debug_assertions)),
                    ("overflow_checks", J::Bool(tcx.sess.overflow_checks())),
                ]),
            ),
            ("fns", J::Obj(fns)),
            ("adts", J::Obj(adts)),
            ("statics", J::Obj(statics)),
            ("impls", arr(impls)),
            ("traits", J::Obj(traits)),
        ])
    }
}
