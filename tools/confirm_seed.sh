#!/bin/bash
# tools/confirm_seed.sh <id> [features]  — confirms a seeded change in its scratch worktree
# $SEED_ROOT/<id> (default /tmp/seed; results go to /verif/seeded/$OUT_ID, default <id>): (1) same passing tests as the baseline, (2) demo fails with the change and
# passes without it; then stores patch + demo under /verif/seeded/<id>/ and removes build output.
set -u
id=$1; feat=${2:-}
root=${SEED_ROOT:-/tmp/seed}
wt=$root/$id
out=/verif/seeded/${OUT_ID:-$id}
mkdir -p $out
git -C $wt diff > $out/patch.diff
[ -s $out/patch.diff ] || { echo "no patch in $wt"; exit 2; }
cd $wt
export CARGO_NET_OFFLINE=true
echo "== tests with the change"
cargo test --workspace --offline --no-fail-fast 2>&1 | grep -E "^test .* ok$" | sort > $root/$id.pass.txt
if diff -q $root/baseline_pass.txt $root/$id.pass.txt >/dev/null; then echo "TESTS: same $(wc -l < $root/$id.pass.txt) passing tests"; else echo "TESTS: DIFFER"; diff $root/baseline_pass.txt $root/$id.pass.txt | head; fi
echo "== demo with the change"
(cd demo && cp ../Cargo.lock . 2>/dev/null; cargo run --offline $feat -q > $root/$id.demo_with.txt 2>&1; echo "exit=$?" >> $root/$id.demo_with.txt)
tail -3 $root/$id.demo_with.txt
echo "== demo without the change"
# (git stash is shared by all worktrees of one repository: never use it here)
git apply -R $out/patch.diff
find src -name '*.rs' -newer $out/patch.diff -exec touch {} + 2>/dev/null; touch src/lib.rs
(cd demo && cargo run --offline $feat -q > $root/$id.demo_without.txt 2>&1; echo "exit=$?" >> $root/$id.demo_without.txt)
git apply $out/patch.diff
touch src/lib.rs
tail -3 $root/$id.demo_without.txt
rm -rf $out/demo; mkdir -p $out/demo
rsync -a --exclude target $wt/demo/ $out/demo/
rm -rf $wt/target $wt/demo/target
