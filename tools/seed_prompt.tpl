You are helping to evaluate verification tooling for the Rust crate `fast_image_resize` (an image-resizing library with SIMD kernels). Your job: craft ONE realistic source change (a "seeded defect") that BREAKS the property below while the crate still compiles and the existing test-suite results do not get worse, plus a demonstration that fails with your change and passes without it.

PROPERTY @ID@ (this text is all you get about what is being checked):
---
@PROP@
---

Where to work:
- Your private git worktree of the crate is /tmp/seed/@ID@ (detached HEAD of the repository). Work ONLY there. Do NOT read or modify /repo or /verif, and do not look for any checker: the point is that your change is independent of what checkers exist.
- The sandbox has no network: always build with `--offline` (e.g. `cargo build --offline`, `cargo test --offline ...`). Use `CARGO_TARGET_DIR=/tmp/seed/@ID@/target` (the default inside the worktree is fine).
- With the rayon feature: add `--features rayon`.

Requirements for the change:
1. It must be a plausible edit a developer could make by mistake or as a well-meant "optimisation"/refactor (not an obviously malicious or absurd one), small (a few lines, at most ~30), in src/ only.
2. It must compile (`cargo build --offline`, and `cargo build --offline --features rayon` if you touch threading code).
3. It must not be exposed by the existing tests: run `cargo test --workspace --offline --no-fail-fast 2>&1 | grep -E "^test .* (ok|FAILED)"` BEFORE and AFTER your change. Note that 16 tests (the `downscale_*`, `custom_filter_u8x4`, `resize_u8x3_interpolation`, `try_resize_to_other_pixel_type` ones) and 2 doctests already FAIL before any change because reference data is missing offline; that is expected. The set of PASSING tests must be identical before and after.
4. It should need something SPECIFIC to manifest, not be exposed by ordinary use at once: e.g. an unusual input (extreme sizes, sub-pixel crop, oversized buffer, strided view, particular residue of width modulo the vector width, particular pixel type/back-end combination), a multi-step sequence of calls, two cooperating sites that each look fine alone, a particular thread count, etc.
5. Write a demonstration: a small standalone cargo project at /tmp/seed/@ID@/demo (Cargo.toml with `fast_image_resize = { path = ".." }`, plus `[workspace]` so it is its own workspace; copy ../Cargo.lock into it; build with `--offline`) whose `cargo run --offline` exits with a non-zero status / panics WITH your change and exits 0 WITHOUT it (to verify both directions do NOT use `git stash` -- the stash is shared between worktrees and other people are working in sibling worktrees; instead `git diff > /tmp/seed/@ID@.mine.patch; git apply -R /tmp/seed/@ID@.mine.patch; <run demo>; git apply /tmp/seed/@ID@.mine.patch`). Keep the demo out of the patch.
6. Leave your change UNCOMMITTED in the worktree (so `git -C /tmp/seed/@ID@ diff` shows exactly the patch; the demo directory must be untracked and not part of `git diff`).

Useful facts: public API is in src/lib.rs re-exports (Resizer, ResizeOptions, ResizeAlg, FilterType, MulDiv, CpuExtensions, images::{Image, ImageRef, TypedImage, TypedImageRef, CroppedImage, CroppedImageMut, TypedCroppedImage, TypedCroppedImageMut}, pixels::*, ImageView/ImageViewMut traits with split_by_height/width, change_type_of_pixel_components, PixelComponentMapper, create_srgb_mapper ...). `unsafe { resizer.set_cpu_extensions(CpuExtensions::Sse4_1) }` selects a back-end (check `.is_supported()`). Source layout: src/resizer.rs (pipeline), src/crop_box.rs, src/images/*.rs, src/image_view.rs, src/threading.rs (rayon feature), src/mul_div.rs, src/alpha/*/{native,sse4,avx2,neon,wasm32}.rs, src/convolution/*/..., src/convolution/{mod,optimisations,filters,macros}.rs, src/color/*.rs, src/pixels.rs, src/change_components_type.rs.

When done, reply with: (a) a one-paragraph description of the change and why it breaks the property, (b) what exactly is needed for it to manifest, (c) the exact commands you ran and their outcomes (tests before/after, demo with/without the change), (d) the output of `git -C /tmp/seed/@ID@ diff`. Remove the target directories you created under /tmp/seed/@ID@ (rm -rf /tmp/seed/@ID@/target /tmp/seed/@ID@/demo/target) before you finish, but leave the patch and the demo sources in place.
