#!/usr/bin/env python3
"""tools/seed_meta.py <id> <property> "<needs>" "<what>" "<caught-by; ...>" [initially_missed]
writes /verif/seeded/<id>/meta.json from the confirmation log of tools/confirm_seed.sh"""
import json
import os
import sys

sid, prop, needs, what, caught = sys.argv[1:6]
missed = sys.argv[6] if len(sys.argv) > 6 else ""
root = os.environ.get("SEED_ROOT", "/tmp/seed")
log = open("%s/%s.confirm.log" % (root, os.environ.get("SRC_ID", sid))).read()
d = "/verif/seeded/%s" % sid
meta = {
    "id": sid,
    "property": prop,
    "what": what,
    "needs_to_manifest": needs,
    "author": "independent sub-agent that saw only the property text and a scratch worktree",
    "confirmed": {
        "ran": ["tools/confirm_seed.sh %s  (cargo test --workspace --offline --no-fail-fast with the "
                "change; demo `cargo run --offline` with the change and after `git apply -R` of the patch)" % sid,
                "git -C /repo apply seeded/%s/patch.diff; ./check <props>; git -C /repo checkout -- ." % sid],
        "tests_same_passing_set": "TESTS: same" in log,
        "demo_exit_with_change": [l for l in log.splitlines() if l.startswith("exit=")][0:1],
        "demo_exit_without_change": [l for l in log.splitlines() if l.startswith("exit=")][1:2],
    },
    "caught_by": [c.strip() for c in caught.split(";") if c.strip()],
    # re-run by tools/selftest.py seed:<id>
    "checks": [{"property": c.strip().split(".")[0], "expect": "fires", "key": c.strip()}
               for c in caught.split(";") if c.strip()],
    "initially_missed": missed,
}
json.dump(meta, open(os.path.join(d, "meta.json"), "w"), indent=1)
print(json.dumps(meta["confirmed"]))
