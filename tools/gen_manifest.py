#!/usr/bin/env python3
"""Regenerates /verif/MANIFEST.json from the claim table below (kept in one place so that the
manifest only ever lists checks that are implemented, armed and quiet)."""
import json
import os

VERIF = os.path.dirname(os.path.dirname(os.path.abspath(__file__)))

# property -> dict(text=..., note=..., technique=..., design=...)
CLAIMS = {}
NOT_APPLICABLE = {}

exec(open(os.path.join(VERIF, "tools", "claims.py")).read())

ALL = ["C%02d" % i for i in range(1, 19)]


def main():
    checks = []
    for pid in ALL:
        if pid in CLAIMS:
            c = CLAIMS[pid]
            checks.append({
                "property_id": pid,
                "quick_cmd": "./check %s --tier quick" % pid,
                "thorough_cmd": "./check %s --tier thorough" % pid,
                "evidence_file": "/verif/evidence/%s.json" % pid,
                "replay_cmd_template": "./check --replay {path}",
                "engine": c.get("engine", "fircheck"),
                "level_claimed": {"category": "other", "text": c["text"],
                                  "design_ref": c.get("design", "DESIGN.md §4 " + pid)},
                "level_note": c["note"],
                "technique": c["technique"],
            })
    na = []
    for pid in ALL:
        if pid not in CLAIMS:
            na.append({"property_id": pid,
                       "reason": NOT_APPLICABLE.get(pid, "engine not built yet (see DESIGN.md §8)")})
    m = {
        "version": 1,
        "setup_cmd": "./setup.sh",
        "hooks": {
            "guard": "fir_verif",
            "enable": "none needed: static analysis reads /repo's sources through the compiler; "
                      "no instrumentation is compiled into the crate",
            "baseline_off_cmd": "cd /repo && cargo test --workspace --no-fail-fast --offline",
            "source_commits": [],
            "add_only": True,
        },
        "engines": [
            {"name": "firdrv", "path": "driver/",
             "serves_properties": sorted(CLAIMS),
             "kind_free_text": "rustc_private driver: dumps items + MIR (opt-level 0) of the "
                               "type-checked crate per build configuration"},
            {"name": "fircheck", "path": "fircheck/",
             "serves_properties": sorted(CLAIMS),
             "kind_free_text": "python static analyses over the extracted program: dispatch "
                               "tables, CFG path rules / typestate, symbolic ranges with guard "
                               "facts, data dependence, axis kinds, monotonicity, load widths"},
            {"name": "witness", "path": "witness/",
             "serves_properties": [p for p in sorted(CLAIMS) if CLAIMS[p].get("witness")],
             "kind_free_text": "compile_fail doctests with compiling twins (type checker as the "
                               "analysis)"},
        ],
        "checks": checks,
        "not_applicable": na,
        "notes": "All checks are static analyses of /repo's current working tree; exit 0 = no "
                 "unlisted definite violation, 1 = VIOLATION, 2 = CHECK-ERROR (could not analyse).",
    }
    with open(os.path.join(VERIF, "MANIFEST.json"), "w") as fh:
        json.dump(m, fh, indent=1)
        fh.write("\n")


if __name__ == "__main__":
    main()
