#!/usr/bin/env python3
"""tools/status_table.py — prints the per-property rule/instance table of DESIGN.md §8 from the
evidence files of the last run (development aid)."""
import glob
import json
import os

VERIF = os.path.dirname(os.path.dirname(os.path.abspath(__file__)))
print("| id | tier | rules: discharged / undecided (+known) |")
print("|----|------|------------------------------------------|")
for p in sorted(glob.glob(os.path.join(VERIF, "evidence", "C??.json"))):
    d = json.load(open(p))
    c = d["coverage"]
    known = {}
    for k in c.get("known_findings_hit", []):
        key = k if isinstance(k, str) else k.get("key", "")
        r = key.split("|")[0]
        known[r] = known.get(r, 0) + 1
    cells = []
    for r, v in sorted(c["per_rule"].items()):
        s = "%s %d/%d" % (r.split(".", 1)[1], v["DISCHARGED"], v["UNDECIDED"])
        if known.get(r):
            s += " (+%d known)" % known[r]
        cells.append(s)
    print("| %s | %s | %s |" % (d["property_id"], d["tier"], ", ".join(cells)))
