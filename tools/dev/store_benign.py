import json,os,shutil,sys
name,patch,what=sys.argv[1],sys.argv[2],sys.argv[3]
props=sys.argv[4:] or ["C01","C02","C03","C04","C05","C06","C07","C08","C09","C11","C12","C13","C14","C15","C16","C17","C18"]
d='/verif/mutants/'+name; os.makedirs(d,exist_ok=True)
shutil.copy(patch,d+'/patch.diff')
json.dump({"what":what,"checks":[{"property":p,"expect":"silent","key":""} for p in props]},open(d+'/meta.json','w'),indent=1)
