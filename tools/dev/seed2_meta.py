#!/usr/bin/env python3
"""writes seeded/<id>b/meta.json for the round-2 seeds whose confirmation log exists"""
import os, subprocess, sys
S = '/verif/tools/seed_meta.py'
D = {
"C01": ("C01", "ResizeAlg::Interpolation (fixed kernel size) with a down-scale other than exactly 2:1 (e.g. 3:1 Bilinear gives taps 2/7, 3/7, 2/7 instead of 0, 1, 0); Convolution, SuperSampling, up-scaling and 1:1 are bit-identical; the only test of this path needs reference data that is missing offline",
  "precompute_coefficients: filter_scale is always scale.max(1.0); only the window radius still depends on adaptive_kernel_size, so for Interpolation the kernel argument is divided by the scale while the window keeps the unscaled support",
  "C01.formula", "initially missed (C01.formula had one filter_scale atom); C01.formula now specialises every expression for adaptive_kernel_size = true / false"),
"C02": ("C02", "U16 pixels, AVX2 back-end, a row handled by the one-row horizontal kernel (height % 4 != 0) and a coefficient window with length % 16 in 8..15 (e.g. 1.3x-2.5x Lanczos3 down-scale): pixels 2,3 are multiplied by coefficients 4,5 and pixels 4,5 by coefficients 2,3",
  "u16x1 avx2 horiz_convolution_one_row: the 8-coefficient step loads pixels with _mm256_cvtepu16_epi64(loadl_epi64(x)) / (x + 4) but keeps the coefficient vectors coeff0145 / coeff2367 laid out for the old shuffled pixel order",
  "C02.lane-pairing", "initially missed; added the lanepair engine (byte-level symbolic pairing of pixels and coefficients)"),
"C03": ("C03", "ResizeAlg::Nearest (or the first stage of SuperSampling) from an ImageRef / Image / TypedImageRef source (only TypedImageRef overrides iter_rows_with_step) with a crop whose top is the largest f64 below the source height and destination height >= 2: the accumulated position reaches exactly `height`, and a whole row past the buffer is read unchecked (debug: abort in the get_unchecked precondition check)",
  "TypedImageRef::iter_rows_with_step: the bounds-checked pixels.get(start..end) (None is skipped) is replaced by get_unchecked(start..start + row_size) with a SAFETY comment that argues from the step count",
  "C03.unchecked-sites", "initially missed; added C03.unchecked-sites (total list of unchecked accesses outside the kernels; float-truncated unclamped index)"),
"C04": ("C04", "ResizeOptions::fit_into_destination(Some(c)) with a NaN component in c (e.g. a focus point computed as 0/0): f64::clamp keeps NaN, the crop box gets left = NaN and is accepted (Ok, destination untouched or garbage) instead of CropBoxError; user crop() boxes are still validated",
  "Resizer::resize_typed validates only SrcCropping::Crop boxes with CroppedSrcImageView::crop and builds the view for None / FitIntoDestination with crop_unchecked",
  "C04.unchecked-crop; C03.unchecked-crop", "initially missed; added the unchecked-crop provenance rule"),
"C05": ("C05", "Convolution / Interpolation / SuperSampling with a crop box whose four values are within 1e-9 of integers and of the destination size but not exactly equal (e.g. fit_into_destination 63x25 -> 7x25 gives width 7.000000000000001, or crop(10, 20, 0.29*100, 0.29*100) into 29x29): both passes are skipped, the fallback copy_image fails, its result is discarded and resize returns Ok with no destination pixel written",
  "do_convolution decides need_horizontal / need_vertical with a tolerant comparison almost_eq(a, b) = |a - b| < 1e-9; the (None, None) arm still calls copy_image, which needs exact integrality, and ignores its result",
  "C05.fallible-write; C12.skip-arm", "initially missed; added the skip-arm rule (a discarded fallible writer needs its success condition established by the arm's conditions; crate-local predicates are inlined)"),
"C06": ("C06", "U16x2, SSE4.1 or AVX2 back-end, the in-place divide_alpha on rows whose width is not a multiple of the vector width, and a tail pixel whose (colour, alpha) is one of the ~0.04 % pairs where the float quotient and the fixed-point reciprocal round differently (e.g. [23187, 33824]: 44926 vs 44925): in-place and two-image variants disagree",
  "u16x2 sse4 divide_alpha_row_inplace hands its 1-3 tail pixels to native::divide_alpha_row_inplace (and avx2 to sse4) instead of padding them through the vector primitive; the two-image routines keep the vector formula for the tail",
  "C06.variants", "UNDECIDED only at first (the reached primitives differed); C06.variants now treats float-quotient and table-reciprocal 16-bit division as different families"),
"C07": ("C07", "alpha pixel type, Convolution or SuperSampling, a crop box whose top/bottom edge lies inside the image and vertical down-scaling strong enough that the kernel reaches beyond ceil(support) + 1 rows (Lanczos3: scale > 1.6): rows outside the premultiplied band are read (zeros on a fresh Resizer, stale pixels otherwise); opaque source: alpha-on != alpha-off",
  "resample_convolution premultiplies only a band of rows around the crop box (unscaled filter support + 1 as margin) through TypedCroppedImage views of the source and the scratch image; the convolution still reads the whole scratch image",
  "C07.premultiply-whole; C07.premultiply-before-read; C09.sizing; C09.write-before-read", "caught by C09 from the start; the scratch rules were added to C07"),
"C08": ("C08", "rayon feature with >= 2 threads, an image large enough to be split and a split dimension that is not divisible by the band count (e.g. 300x203 -> 150x101 with 8 threads, multiply_alpha on 128x128 with 3 threads): bands after the first read source rows / columns shifted by up to total % n",
  "split_h/v_two_images_for_threading split only the destination with split_by_*_mut and build each source band by hand at src_offset + i * total / n with the height / width of its destination band",
  "C08.axis", "UNDECIDED only at first ('1 split calls'); C08.axis now reports hand-placed bands at the proportional boundary"),
"C09": ("C09", "u8-component pixel type, a resize that needs both passes with a strong horizontal shrink and vertical stretch (e.g. 1200x24 -> 60x300) on a Resizer (or a clone of one) whose convolution buffer was left by an earlier call with a length between the two possible temporary-image sizes: the pass order changes, and with it about a third of the output bytes by +-1",
  "do_convolution chooses horizontal-first for u8 images when the vertical-first temporary image does not fit into the already allocated convolution_buffer.len() but the horizontal-first one does",
  "C09.state-independence", "initially missed; added the buffer-state taint rule"),
"C11": ("C11", "ResizeAlg::Nearest with dst height == crop height (rows not scaled) and a crop top whose fractional part is >= 0.5 (e.g. crop(0, 2.5, 12, 4) -> 6x4): every destination row copies the source row one above the correct one",
  "resample_nearest gets a fast path for horizontally-only scaling that takes consecutive rows from src_view.iter_rows(crop_box.top as u32) instead of iter_rows_with_step(top + 0.5 * scale, ..)",
  "C11.formula", "initially missed (warnings only); C11.formula now checks every other source-row iterator of resample_nearest against the formula under the facts that guard it"),
"C12": ("C12", "a crop box with a sub-pixel offset in exactly one axis (e.g. crop(10.5, 8, 20, 30)), the destination matching the crop along the other axis, and a filter that is non-zero at integer taps (Mitchell, Gaussian, custom): the matching axis is resampled (blurred)",
  "a new helper CropBox::has_subpixel_offset() (left or top fractional) replaces the per-axis tests: need_horizontal and need_vertical both become `subpixel_offset || dst_size != crop_size` (equivalent inside copy_image, wrong in do_convolution)",
  "C12.need-pass", "initially the equivalent part of the refactor raised a false alarm in C12.copy-cond and the real defect was missed; crate-local predicates are now expanded in both rules (the equivalent part alone is the benign mutant benign-copy-helper)"),
"C13": ("C13", "ResizeAlg::Nearest, the same pixels held by a TypedImageRef-backed source (TypedImageRef, Image, ImageRef) versus an owned TypedImage, and a height pair whose scale puts a row centre on an integer at destination row >= 2 (16 -> 6, 24 -> 7, 300 -> 35; about 19 % of pairs): the two containers pick different source rows",
  "TypedImageRef::iter_rows_with_step computes the row position as (start_y + step * i) as usize instead of accumulating y += step like the trait default does",
  "C13.step-siblings", "initially missed; added the sibling-agreement rule over the iter_rows_with_step implementations"),
"C14": ("C14", "a user-defined ImageViewMut (all containers of the crate override or delegate the default) whose band height is not divisible by num_parts: part `modulo` overlaps the last rows of its predecessor (two &mut parts alias) and the last `modulo` rows are in no part",
  "the default ImageViewMut::split_by_height_mut is rewritten as (0..num_parts).map(|i| ..) with part_height = if i < modulo { step + 1 } else { step } and top = start_row + i * part_height",
  "C14.positions", "initially a shape mismatch in C14.aliasing fired for the wrong reason (now UNDECIDED); added C14.positions (accumulator vs index times own size)"),
"C15": ("C15", "a centering component outside [0, 1] that reaches the crop computation without the builder: options.cropping = SrcCropping::FitIntoDestination((1.5, 0.5)) or CropBox::fit_src_into_dst_size(.., Some((1.5, 0.5))) with differing aspect ratios: the box leaves the source and the resize fails with a crop error",
  "the clamp(0, 1) of the centering moves from CropBox::fit_src_into_dst_size into the builder ResizeOptions::fit_into_destination (both the function and the enum variant are public)",
  "C15.clamp", "UNDECIDED only at first; C15.clamp now reports a raw caller value that reaches the margins"),
"C16": ("C16", "a U16x2 source image mapped with forward_map / backward_map / in place, and an alpha value other than 0 and 65535: the alpha channel goes through the sRGB / gamma table (9973 becomes 1318)",
  "map_image_typed / map_image_inplace_typed hoist the gap decision into alpha_channel_step::<P>(), which matches on the pixel type and forgets PixelType::U16x2",
  "C16.gaps", "warning only at first; C16.gaps now checks a gap step chosen by pixel type against the set of 8/16-bit types with alpha"),
"C17": ("C17", "U8* -> U16* -> U8* round trip with a component in 128..=254: it comes back one larger (128 -> 129); single conversions stay monotone and keep the end points",
  "IntoPixelComponent<u8> for u16 rounds ((self.saturating_add(1 << 7)) >> 8) as u8 instead of taking the high byte, although u8 -> u16 replicates the byte (v * 257)",
  "C17.round-trip", "initially missed; added the round-trip rule (linear / floor composition decided at the ends of the range)"),
"C18": ("C18", "u8-component pixel type, any back-end, a reduction of more than about 512x along one axis (Gaussian 410x) with bright source values: the precision reaches 24-25, the i32 accumulators wrap and the output is 0 (release) or a panic (debug)",
  "Normalizer16::new searches the precision with the loop bound PRECISION16_BITS (46) of the 16-bit path instead of PRECISION_BITS (22)",
  "C18.headroom; C02.headroom; C03.headroom", "UNDECIDED only at first (precision values outside the macro arms' hull); added the headroom rule"),
}
for sid, (prop, needs, what, caught, missed) in sorted(D.items()):
    log = "/tmp/seed2/%s.confirm.log" % sid
    if not os.path.exists(log) or "exit=" not in open(log).read():
        print(sid, "not confirmed yet"); continue
    if len(sys.argv) > 1 and sid not in sys.argv[1:]:
        continue
    env = dict(os.environ, SEED_ROOT="/tmp/seed2", SRC_ID=sid)
    subprocess.check_call([sys.executable, S, sid + "b", prop, needs, what, caught, missed], env=env,
                          stdout=subprocess.DEVNULL)
    print(sid, "meta written")
