#!/usr/bin/env python3
"""writes seeded/<id>c/meta.json for the round-3 seeds whose confirmation log exists"""
import os, subprocess, sys
S = '/verif/tools/seed_meta.py'
D = {
"C01": ("C01", "U8-component image, any back-end, Convolution or SuperSampling with a reduction of about 500x or more per axis (Box 24000x3 -> 6x3 is off by 4.9 units, 5x3000 -> 5x3 by 1.8): the weights are about 1/n and keep only 15 fractional bits, every coefficient rounds the same way and the window no longer sums to 1; up-scaling and moderate reductions are bit-identical",
  "Normalizer16::new / Normalizer32::new stop the precision search at MAX_COEFFS_PRECISION (15 / 31) instead of PRECISION_BITS - 1 (21 / 45), 'enforcing' the precondition the kernels' safety comments state",
  "C01.precision-reach", "missed; added C01.precision-reach (the precision interval must reach the accumulator head-room; a cap at the coefficient width is a violation)"),
"C02": ("C02", "F32x4, AVX2 back-end, a pixel with negative alpha inside a full 8-pixel chunk (arises inside alpha-aware resizing with Lanczos3 / CatmullRom next to a hard alpha edge, or passed to MulDiv::divide_alpha directly): AVX2 writes colour 0 where the portable code and SSE4.1 divide",
  "f32x4 avx2 divide_alpha_8_pixels rewritten to multiply by a masked reciprocal; the mask predicate changed from _CMP_NEQ_UQ (alpha != 0) to _CMP_GT_OQ (alpha > 0)",
  "C02.zero-guard; C06.zero-guard", "missed (C02 ran no alpha rules); added the zero-guard rule and put the alpha rules of C06 under C02 as well"),
"C03": ("C03", "three calls on one reused Resizer whose scratch sizes A < B < C satisfy B < 2A and B + 2 pixels <= C <= 2A (RGBA8 sources 64x64, 80x80, 88x88): call 2 grows the Vec by doubling, call 3 sees capacity >= C, skips the resize and slices a buffer of length B: panic 'range end index out of range'",
  "get_temp_image_from_buffer grows the scratch buffer when buffer.capacity() < buf_size instead of buffer.len() < buf_size",
  "C03.scratch-grow; C09.scratch-grow; C09.state-independence", "missed by C03 (C09.state-independence fired); added the scratch-grow rule"),
"C04": ("C04", "ImageRef::new / Image::from_vec_u8 / Image::from_slice_u8 with width * height * pixel size >= 2^64 (2^30 x 2^30 F32x4) and an undersized buffer: the product wraps, a 64-byte buffer is accepted (release) or validation panics (debug)",
  "the three byte-size checks are deduplicated into required_buffer_size() which multiplies with plain `*` instead of checked_mul",
  "C04.arith", "caught by the checks as they stood"),
"C05": ("C05", "f32 pixel type, SSE4.1 back-end, a vertical pass and a destination row whose component count mod 8 is 4..7 (F32x4 with odd width): 16 bytes are written past the 4-component chunk, visible in a mutable cropped view (pixel right of the view) or an oversized buffer (first spare pixel)",
  "vertical_f32 sse4: the 4-component step is turned into a loop and calls multiply_components_of_rows::<_, 4> (4 accumulators = 8 floats) for a chunk of 4 floats",
  "C05.chunk-store", "missed; added C05.chunk-store (accumulator count x lanes = chunk length at every call of the generic helper)"),
"C06": ("C06", "F32x2 divide, a pixel with 0 < |alpha| < f32::EPSILON handled by the portable code (CpuExtensions::None, or the last width % 4 columns under SSE4.1 / AVX2): luma becomes 0 instead of luma / alpha",
  "f32x2 native divide_alpha_row / _inplace test `alpha.abs() < f32::EPSILON` instead of `alpha.is_zero()` ('don't compare floats for equality')",
  "C06.zero-guard; C02.zero-guard; C07.zero-guard", "missed; added the zero-guard rule"),
"C07": ("C07", "F32x4, a filter with negative lobes across a sharp alpha edge (resampled alpha slightly negative), the portable code path (CpuExtensions::None or the last width % 8 columns): the negative alpha is replaced by 0, so the alpha channel is no longer the plain resampling of the source alpha",
  "f32x4 native divide_alpha_row / _inplace test `alpha <= 0.` instead of `alpha.is_zero()`; the branch overwrites all four components",
  "C07.zero-guard; C06.zero-guard", "missed; the zero-guard rule runs under C07 as well"),
"C08": ("C08", "rayon feature, an image whose split side s satisfies s * max(s, other) >= 2^32 (side >= 65536): the u32 product overflows: panic in builds with overflow checks, division by zero in release when it wraps to 0 (1x65536)",
  "calculate_max_h/v_parts_number are merged into one helper whose area is (size * size.max(other_size)) as u64: the cast happens after the u32 multiplication",
  "C08.arith", "caught by the checks as they stood"),
"C09": ("C09", "a non-default back-end selected with set_cpu_extensions on the original, the resize run on a clone, an alpha pixel type whose MulDiv back-ends differ (U16x4, F32x4): the clone reports the same cpu_extensions() but multiplies / divides alpha on MulDiv::default()",
  "derive(Clone) on Resizer replaced by a hand-written clone that copies cpu_extensions and takes everything else (mul_div included) from Default, 'to avoid copying the scratch buffers'",
  "C09.clone-config", "missed; added C09.clone-config"),
"C11": ("C11", "two Nearest resizes (or SuperSampling first steps) on one Resizer with the same source width, destination width and crop width but a different crop left (panning a window): the second copies pixels from the first call's columns",
  "the column table of resample_nearest is cached in the Resizer (NearestColumns::get) and reused when dst_width, source width and x_scale are unchanged; the key omits x_in_start",
  "C11.stateless; C09.state-fields", "missed; added the state-fields rule (cache key completeness)"),
"C12": ("C12", "fit_into_destination() with a destination of exactly the source size and an unlucky (w, h) where fl(fl(w/h)*h) != w (26x23, 49x22: one ulp below, the image is resampled instead of copied; 3x187, 5x147: one ulp above, resize fails with PositionIsOutOfImageBoundaries)",
  "the approximately-equal-ratio branch of CropBox::fit_src_into_dst_size is removed as 'redundant'",
  "C12.fit-exact; C15.inside", "missed by C12 (C15.inside fired); the rule runs under C12 as well"),
"C13": ("C13", "destination is a cropped view with parent rows below it, a SIMD back-end, a horizontal-only resize (dst height = crop height, integer top) of a crop with source rows below it, dst height >= 4: the tail loop of the horizontal kernels writes rows of the larger image below the view",
  "TypedCroppedImageMut::iter_rows_mut limits the rows with take(self.height) instead of take(self.height - start_row)",
  "C13.view-offsets-cropped", "caught by the checks as they stood"),
"C14": ("C14", "a tall view with num_parts * band_height >= 2^32, more exactly some i <= num_parts with i * height > u32::MAX (a 1 x 70000 image split into 65536 parts; through rayon about 2^28 rows with 16 threads): panic 'attempt to multiply with overflow' (debug) or 'mid > len' in split_at (release); every ordinary size is split correctly",
  "TypedImageRef::split_by_height, TypedImage::split_by_height and split_by_height_mut compute the part boundaries directly: for i in 1..=num_parts { part_height = start_row + i * height / num_parts - top } with the product in u32",
  "C14.arith", "C14.count raised a false alarm on the loop shape (1..=num_parts) and the overflow was UNDECIDED; count now compares trip counts as polynomials, C14.arith finds a concrete witness on the guards"),
"C15": ("C15", "FitIntoDestination with src_width * dst_height or src_height * dst_width >= 2^32 (a (2^22+1) x 1 source into 1024x1024): the u32 cross products wrap, different ratios compare equal and the whole source is returned (release), or resize panics (debug)",
  "ResizeOptions::get_crop_box gets a fast path that returns the full source when src_width * dst_height == src_height * dst_width, computed in u32",
  "C15.arith; C03.arith", "missed by C15 (C03.arith fired); C15.arith added (the overflow rule over the functions that compute the fitted box)"),
"C16": ("C16", "forward_map / backward_map with an image of zero width or height and a mismatching partner (0x0 source with a 16x16 destination; U8x3 0x9 into U8x2 0x9): Ok(()) instead of DifferentDimensions / UnsupportedCombinationOfImageTypes",
  "PixelComponentMapper::map returns Ok(()) early for empty images before the dimension check and the pixel-type match",
  "C16.reject", "missed; C16.reject now also requires every Ok return that is not the continuation of a map_image call to come after the comparison of the dimensions"),
"C17": ("C17", "change_type_of_pixel_components with source and destination that agree in exactly one dimension (5x4 into 5x6, 8x4): accepted, the destination is left partly unconverted or the source silently truncated",
  "the dimension check of change_type_of_pixel_components_typed is rewritten in positive form with || instead of && (De Morgan slip)",
  "C17.reject", "caught by the checks as they stood"),
"C18": ("C18", "16-bit pixel format, SSE4.1 back-end, a vertical pass, a row with width * components mod 8 in 4..7 and a source component >= 0x8000 in the 4 tail columns: the value enters the accumulator as v - 65536, the output drops to 0 when the input rises from 32767 to 32768",
  "vertical_u16 sse4: the 4-component tail loads with loadl_epi64 and widens with _mm_cvtepi16_epi64 (sign-extending) instead of building the operand from zero-extended scalars",
  "C18.zero-extend", "caught by the checks as they stood"),
}
for sid, (prop, needs, what, caught, missed) in sorted(D.items()):
    log = "/tmp/seed3/%s.confirm.log" % sid
    if not os.path.exists(log) or open(log).read().count("exit=") < 2:
        print(sid, "not confirmed yet"); continue
    if len(sys.argv) > 1 and sid not in sys.argv[1:]:
        continue
    env = dict(os.environ, SEED_ROOT="/tmp/seed3", SRC_ID=sid)
    subprocess.check_call([sys.executable, S, sid + "c", prop, needs, what, caught, missed], env=env,
                          stdout=subprocess.DEVNULL)
    print(sid, "meta written")
