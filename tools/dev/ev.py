#!/usr/bin/env python3
"""tools/dev/ev.py <prop> <rule-substr>: verdicts of the instances of a rule in evidence/<prop>.json"""
import json, sys, collections
d = json.load(open('/verif/evidence/%s.json' % sys.argv[1]))
sub = sys.argv[2] if len(sys.argv) > 2 else ""
out = []
def walk(x):
    if isinstance(x, dict):
        if 'verdict' in x and 'rule' in x:
            if sub in x['rule']:
                out.append(x)
            return
        for v in x.values():
            walk(v)
    elif isinstance(x, list):
        for v in x:
            walk(v)
walk(d)
c = collections.Counter((x['rule'], x['verdict']) for x in out)
for k, v in sorted(c.items()):
    print(v, *k)
if len(sys.argv) > 3:
    for x in out:
        if sys.argv[3] in x['verdict']:
            print(x['verdict'], x['key'][:120], '::', x.get('detail', '')[:200])
