#!/usr/bin/env python3
"""writes seeded/<id>e/meta.json for the round-5 seeds whose confirmation log exists"""
import os, subprocess
S = '/verif/tools/seed_meta.py'
D = {
"C01": ("SuperSampling with factor > 1.2 and horizontal / vertical scale factors that differ by more than half an intermediate pixel (120x60 -> 10x10, Bilinear, x2: 92 of 100 samples differ by up to 80); aspect-preserving resizes and FitIntoDestination are unaffected",
  "resample_super_sampling sizes the nearest-neighbour intermediate image dst_width * multiplicity x dst_height * multiplicity ('computed in integers') instead of round(crop / factor) with one common factor",
  "C01.supersampling-size key=resample_super_sampling|intermediate-size|not-from-crop", "missed; added C01.supersampling-size"),
"C02": ("U8x2, AVX2, one of the last height % 4 rows, at least 16 coefficients per destination pixel (Lanczos3 down-scale by >= 2.7): AVX2 is +1 against portable / SSE4.1 for about half of the bytes",
  "u8x2 avx2 horiz_convolution_one_row: rounding constants hoisted out of the loop; the 256-bit accumulator (folded twice) is seeded from the 128-bit constant 1 << (precision - 2) instead of 1 << (precision - 3)",
  "C02.round-budget key=convolution::u8x2::avx2::horiz_convolution_one_row; C01.round-budget key=convolution::u8x2::avx2::horiz_convolution_one_row; C18.round-budget key=convolution::u8x2::avx2::horiz_convolution_one_row", "caught by the checks as they stood"),
"C03": ("a custom filter whose normalised weights reach 2.5 times white (weights 3 / -1, support 1.5, 2x down-scale of a white stripe on black) on a code path that uses the clip table (portable u8, SIMD U8 / U8x2): index 1280 of the 1280-entry table (abort in debug builds, the byte after the table in release)",
  "Normalizer16::clip clamps the value first: (v >> precision).clamp(-640, 640) + 640; the upper bound is one too large",
  "C03.table-index key=convolution::optimisations::Normalizer16::clip", "caught by the checks as they stood"),
"C04": ("ResizeOptions::crop with a NaN width or height (valid left / top): crop returns Ok, resize returns Ok(())",
  "CroppedSrcImageView::crop rewritten in the clippy style: `width < 0. || height < 0.`, Range::contains for the position, `left + width > img_width || ..` for the extent; a NaN size passes all three",
  "C04.crop-f64 key=nan|width; C03.crop-validate key=nan|width", "caught by the checks as they stood"),
"C05": ("an explicit crop box of width or height 0 inside a non-empty source, Convolution / Interpolation, alpha handling on, an alpha pixel type and a destination whose previous content has alpha neither 0 nor max: resize returns Ok(()) and every destination pixel is alpha-divided in place",
  "the early 'nothing to do' exit of resize_typed tests src_view.width() / height() == 0 instead of the crop box; resample_convolution (unchanged) premultiplies, do_convolution returns at its zero-size guard, divide_alpha_inplace_typed(dst_view) runs unconditionally",
  "C05.zero-untouched key=public|resizer::Resizer::resize_typed|width Le", "missed; added the zero-untouched demand propagation (engines/zerodim.py). The sub-agent also pointed at SuperSampling(_, 0) in the unmodified crate: a genuine defect, finding 13a, fixed"),
"C06": ("PixelType::F32x2 through the dynamic in-place division MulDiv::divide_alpha_inplace: Err(UnsupportedPixelType) while the typed entry point and the two-image variant accept it",
  "the two cfg-dependent match tables of divide_alpha_inplace merged into one with #[cfg] on the arms; the F32x2 arm was dropped",
  "C06.alpha-set key=divide_alpha_inplace; C07.alpha-set key=divide_alpha_inplace", "caught by the checks as they stood"),
"C07": ("ResizeAlg::Interpolation, alpha handling on, an alpha pixel type and down-scaling: the premultiplied path convolves with the adaptive kernel (as Convolution would); an opaque source differs from the alpha-off result in every pixel",
  "resample_convolution passes the literal `true` for adaptive_kernel_size to do_convolution in the alpha branch; the non-alpha call still forwards the parameter",
  "C07.forwarded-options key=resizer::Resizer::resample_convolution|do_convolution|adaptive_kernel_size|literal; C01.forwarded-options key=resizer::Resizer::resample_convolution|do_convolution|adaptive_kernel_size|literal", "missed; added the sibling-call rule (engines/siblings.py)"),
"C08": ("rayon feature, a cropped view as destination (or source), few rows and many threads so that ceil(h/n)*(n-1) >= h (2000x10 region, 6 threads): a band of zero rows; the cropped wrapper unwraps PositionIsOutOfImageBoundaries",
  "TypedImageRef / TypedImage::split_by_height(_mut) size the bands with height.div_ceil(num_parts) and give the last band the rest: 10 rows in 6 parts are 2,2,2,2,2,0",
  "C08.band-sizes key=step-rounded-up; C14.sizes key=step-rounded-up", "missed; added C14.sizes / C08.band-sizes"),
"C09": ("two resizes with one Resizer (also after reset_internal_buffers or on a clone) with identical geometry and filter on an axis, one Convolution(F) and one Interpolation(F), down-scaling: the second is served the first one's coefficients",
  "Resizer gets a cache of the last horizontal / vertical coefficients; the key (in_size, in0, in1, out_size, filter_type) omits adaptive_kernel_size",
  "C09.state-fields key=Resizer.coeffs_cache; C11.stateless key=Resizer.coeffs_cache", "caught by the checks as they stood"),
"C11": ("Nearest with a user crop whose left / top is within 1e-9 below an integer (5.0 - 1e-10) and a scale for which (x + 0.5) * crop / dst is an integer (every even integer down-scale): the pixel one column / row too far is copied",
  "CroppedSrcImageView::crop 'aligns the crop box to the pixel grid': values within 1e-9 of an integer are replaced by it before validation and stored; round is not floor",
  "C11.crop-passthrough key=crop_box::CroppedSrcImageView::<'a, T>::crop|modified; C04.crop-f64 key=lower|left", "caught under C03 / C04 (the validated values are no longer the caller's: a left of -1e-10 is accepted); crop-passthrough added for C11, C01, C12"),
"C12": ("U8x4, AVX2, a horizontal-only pass (destination height == height of an integer-aligned crop with top != 0) and dst_height % 4 != 0: the last height % 4 rows are built from source rows y instead of top + y",
  "u8x4 avx2 horiz_convolution_p: while passing the exact group count to iter_4_rows the tail loop lost the offset: src_view.iter_rows(grouped_rows) instead of (yy + offset)",
  "C12.kernel-rows key=convolution::u8x4::avx2::horiz_convolution_p|src-tail; C02.kernel-rows key=convolution::u8x4::avx2::horiz_convolution_p|src-tail; C05.kernel-rows key=convolution::u8x4::avx2::horiz_convolution_p|src-tail", "caught by C02 / C05; the rule now also runs under C12"),
"C13": ("a cropped view as source whose right edge is not the right edge of the wrapped image, a SIMD back-end, an alpha pixel type in multiply / divide (or a resize with alpha) and a crop width that is not a multiple of the vector chunk: the tail pixels of each row are not written or computed from pixels right of the crop",
  "TypedCroppedImage(Mut)::iter_rows returns &row[left..] ('rows may be longer than the width') instead of row.get_unchecked(left..right); the SIMD alpha rows take their tails from the source row's remainder",
  "C13.view-offsets-cropped key=open-ended; C04.row-width key=open-ended; C05.view-rect key=open-ended; C03.index-rows key=open-ended", "missed (anchor warnings only); open-ended column slices are now a violation; rule also under C04"),
"C14": ("split_by_width_mut (default method, also TypedImage's) with band width < parts <= view width: Some with zero-width parts (or a panic when the band touches the right edge) instead of None",
  "the default ImageViewMut::split_by_width_mut reads self.width() once into img_width and the guard became num_parts > img_width",
  "C14.guards key=image_view::ImageViewMut::split_by_width_mut|num_parts <= width; C08.split-guards key=image_view::ImageViewMut::split_by_width_mut|num_parts <= width", "caught by the checks as they stood"),
"C15": ("fit_into_destination with the centering of the cropped dimension >= 1 and a size pair for which w - cw rounds upwards (640x480 -> 3x7, 33x100, 1000x13): resize fails with SrcCroppingError(SizeIsOutOfImageBoundaries)",
  "CroppedSrcImageView::crop compares width <= img_width - left and height <= img_height - top instead of left + width <= img_width: the half-ulp of left = fl(w - cw) is no longer absorbed",
  "C15.validator-form key=upper|width; C04.crop-f64 key=upper|width", "caught under C03 / C04; the validator rule now also runs under C15"),
"C16": ("in-place mapping (forward_map_inplace / backward_map_inplace) of U8x2 / U16x2 images of odd width with an alpha the table does not fix: the alpha of the last pixel of every row goes through the transfer function",
  "map_with_gaps_inplace processes blocks of four components with a mask and hands the remainder (the last LA pixel of an odd row) to the gap-less map_inplace",
  "C16.gaps key=map_with_gaps_inplace|gap-less-part", "missed (the rewritten loop was UNDECIDED); who-may-call clause added"),
"C17": ("I32 <-> F32 through change_type_of_pixel_components(_typed): raw bits are copied (i32::MAX becomes NaN, 1.0 becomes 1065353216)",
  "a 'nothing to convert' fast path copies rows with from_raw_parts + copy_from_slice when count_of_values of the two component types is equal; i32 and f32 both declare 0",
  "C17.convert-all key=change_type_of_pixel_components_typed|copy_from_slice", "missed; added C17.convert-all"),
"C18": ("SuperSampling with factor > 1.2, use_alpha(false) and an alpha pixel type: the second step runs the alpha pipeline (constant [1, 1] U8x2 gives colour 0, below the source minimum)",
  "resample_super_sampling swaps the two adjacent bool arguments of resample_convolution: (.., use_alpha, true) instead of (.., true, use_alpha)",
  "C18.alpha-flag-supersampling key=resample_super_sampling|resample_convolution|flag; C07.supersampling-alpha key=resample_super_sampling|resample_convolution|flag; C01.alg-table key=supersampling|adaptive", "caught by C01 / C07; the flag rules now also run under C18"),
}
for sid, (needs, what, caught, missed) in sorted(D.items()):
    log = "/tmp/seed5/%s.confirm.log" % sid
    if not os.path.exists(log) or open(log).read().count("exit=") < 2:
        print("skip", sid)
        continue
    env = dict(os.environ, SEED_ROOT="/tmp/seed5", SRC_ID=sid)
    subprocess.check_call(["python3", S, sid + "e", sid, needs, what, caught, missed], env=env)
