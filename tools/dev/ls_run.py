import sys, collections
from fircheck import progs
from fircheck.engines import lanepair
class R:
    c=collections.Counter()
    def rule(s,*a): pass
    def floor(s,*a): print("floor",a[1:])
    def note(s,t): print("note",t)
    def touch(s,f): pass
    def ok(s,r,k,loc,t,**kw): R.c['ok']+=1; print("ok ",k.replace('convolution::',''),'::',t[:80])
    def bad(s,r,k,loc,t): R.c['bad']+=1; print("BAD",k,'::',t[:260])
    def unk(s,r,k,loc,t): R.c['unk']+=1; print("unk",k.replace('convolution::',''),'::',t[:300])
lanepair.stores(R(),progs.program("x86"),"r")
print(R.c)
