#!/usr/bin/env python3
"""writes seeded/<id>h/meta.json for the round-8 seeds whose confirmation log exists"""
import json, os, subprocess
S = '/verif/tools/seed_meta.py'
D = {
"C01": ("F32, AVX2, a horizontal pass whose row count is not a multiple of 4 and a crop strictly inside the source (first used row >= 4 - r, rows below the last one): the last 1-3 rows of the pass are never convolved",
  "f32x1 avx2 horiz_convolution takes its tail rows from into_remainder() of both 4-row iterators; the source iterator was built with max_rows = dst_height + offset and yields one more full group, so its remainder is None",
  "C01.kernel-rows key=convolution::f32x1::avx2::horiz_convolution|remainder; C05.kernel-rows key=convolution::f32x1::avx2::horiz_convolution|remainder; C02.kernel-rows key=convolution::f32x1::avx2::horiz_convolution|remainder", "caught by C02 / C05 / C12 (kernel-rows); now also under C01"),
"C02": ("U16x4, SSE4.1 (and the AVX2 row tail), one of 5006 (colour, alpha) pairs with both values above about 45000: the product is one lower than the portable mul_div_65535",
  "u16x4 sse4 multiply_alpha_2_pixels: (p + 0x8000 + (p >> 16)) >> 16 with p = a*b -- the p >> 16 term is taken before the rounding term is added",
  "C02.round-div key=alpha::u16x4::sse4::multiply_alpha_2_pixels|inexact; C06.round-div key=alpha::u16x4::sse4::multiply_alpha_2_pixels|inexact", "caught by the checks as they stood"),
"C03": ("Nearest, a sub-pixel crop flush against the right border whose width / (2 * dst_width) is below half an ulp of left: the column table holds src_width and get_unchecked reads past the row",
  "resample_nearest computes the centre as left + (x + 0.5) * x_scale 'like precompute_coefficients' and drops the clamp to the last column",
  "C03.index-nearest key=x_in|unclamped; C11.index key=x_in|unclamped", "caught by the checks as they stood (rule of round 7)"),
"C04": ("a zero-width image with height > 0 over a container of fewer than `height` pixels: the typed constructors refuse it (InvalidPixelsSize), the dynamic ones accept it and the later typed view unwraps: resize from Image::new(0, 3) panics",
  "TypedImageRef::new / TypedImage::from_pixels / from_pixels_slice share has_enough_rows(len, width, height) = len / max(width, 1) >= height",
  "C04.size-exact key=TypedImageRef::<'a, P>::new|exact", "missed (C04.buffers proves 'accepted only if large enough'; UNDECIDED on the new form); added size-exact (grid evaluation of the acceptance condition)"),
"C05": ("a 0 x h image over a non-empty buffer and an operation without its own zero-size exit (colour mapping, component conversion): the row iterators hand out one-pixel rows from the spare capacity, which is then written",
  "TypedImageRef / TypedImage iter_rows(_mut): the width == 0 branch is folded away with (self.width as usize).max(1)",
  "C05.view-rows key=iter_rows; C13.view-offsets key=iter_rows", "caught by C13 (view-offsets); now also under C05"),
"C06": ("U16x4 divide_alpha, SSE4.1, alpha == 1 and a colour >= 32769: the quotient does not fit i32, cvtps_epi32 gives 0x80000000, packus gives 0 instead of 65535",
  "u16x4 sse4 divide_alpha_2_pixels: the _mm_min_ps(.., alpha_max) clamps before _mm_cvtps_epi32 are removed ('packus saturates anyway')",
  "C06.convert-range key=alpha::u16x4::sse4::divide_alpha_2_pixels|cvtps", "caught by the checks as they stood"),
"C07": ("U16x4, AVX2, alpha handling on, a filter with negative lobes and 4 consecutive aligned destination pixels whose resampled alpha is clamped to 0 over a non-zero premultiplied colour: the colour survives",
  "u16x4 avx2 divide_alpha_row_inplace returns from the chunk body when all four alphas are zero ('nothing to divide, nothing to write back')",
  "C07.divide-every-chunk key=alpha::u16x4::avx2::divide_alpha_row_inplace|{closure#1}|skipped; C06.divide-every-chunk key=alpha::u16x4::avx2::divide_alpha_row_inplace|{closure#1}|skipped", "missed; added divide-every-chunk"),
"C08": ("rayon, >= 2 threads, an in-place alpha operation (or the final divide of an alpha-aware resize) on an image of 2..7 rows that is wide enough to be split: NonZeroU32::new(0).unwrap() panics",
  "split_h_one_image_for_threading caps the number of bands with .min(height / MIN_INPLACE_BAND_HEIGHT) behind the guard that only covers the other two operands",
  "C08.unwrap key=threading::split_h_one_image_for_threading; C03.unwrap key=threading::split_h_one_image_for_threading", "missed (UNDECIDED: lower bound not shown); a witness search over the guards (helper conditions expanded) now finds height = 2, width = 9000, 2 threads"),
"C09": ("the same Resizer, Convolution / Interpolation with alpha, two sources with the same first-row address, size and pixel type but other content (a frame buffer repainted in place): the second result is computed from the first frame's premultiplied copy",
  "Resizer gets premultiplied_src: Option<(PixelType, usize, u32, u32)> and skips multiply_alpha_typed when the incoming source has the same identity",
  "C09.state-fields key=Resizer.premultiplied_src; C09.write-before-read key=resizer::Resizer::resample_convolution|premultiplied_src#0", "caught by the checks as they stood"),
"C11": ("a source viewed through the default iter_rows_with_step (TypedImage, cropped views, user views), a destination of several hundred thousand rows and a non-dyadic scale: some rows are copies of the source row above the right one",
  "ImageView::iter_rows_with_step tracks the position in 32.32 fixed point: to_fixed(step) truncates the step, the accumulated position drifts by up to i * 2^-32",
  "C11.step-unquantised key=image_view::ImageView::iter_rows_with_step::{closure#0}", "missed; added step-unquantised"),
"C12": ("Nearest, a crop whose width equals the destination width, left > 0 and another height: the rows are copies of the source columns 0..width instead of left..left+width",
  "resample_nearest gets a fast path for x_scale == 1: out_row.copy_from_slice(&in_row[..row_len]) on rows of the uncropped view",
  "C12.source-columns key=resizer::resample_nearest|index|left-dropped; C11.source-columns key=resizer::resample_nearest|index|left-dropped", "missed; added source-columns (taint from crop_box.left into every column access of a source row)"),
"C13": ("f32 components, a vertical-only pass on a cropped view narrower than its parent, a non-empty scalar tail (width * components % 8 != 0): the tail columns are read with the stride of a contiguous image",
  "vertical_f32 native convolution_by_f32 fetches the first row once and walks a raw pointer by src_view.width() * components from row to row",
  "C13.row-stride key=convolution::vertical_f32::native::convolution_by_f32|src_ptr|width-stride", "missed; added row-stride"),
"C14": ("a view that uses the default split_by_height (user views, crops of them) and start_row + height >= 2^32: overflow panic / unwrap of a rejected crop instead of None",
  "the default ImageView::split_by_height guards with start_row + height > self.height()",
  "C14.guards key=image_view::ImageView::split_by_height|height <= self.height(); C03.arith key=image_view::ImageView::split_by_height|Overflow(Add)(start_row, get(height))", "caught by the checks as they stood"),
"C15": ("FitIntoDestination with an aspect mismatch so extreme that the cropped side is thinner than one source pixel (16x2 into 1x16): the box is 1.0 x 2.0 instead of 0.125 x 2.0",
  "fit_src_into_dst_size floors both crop dimensions at 1.0 ('never crop to less than one pixel')",
  "C15.full-span key=path", "caught by the checks as they stood"),
"C16": ("a 16-bit source: forward tables map 65535 to 65533, the gamma 2.2 backward table maps 1 to 93 instead of 424 (417 wrong entries)",
  "MappingTable::new evaluates map_func at every 16th input of the 65536-entry tables and interpolates linearly in between; the last knot is clamped to SIZE - 1",
  "C16.entry-formula key=color::MappingTable::<Out, SIZE>::new|entry|combined", "missed; added entry-formula"),
"C17": ("u8 / u16 -> f32 at the maximum: 255 -> 0.99999994, 65535 -> 0.9999999",
  "IntoPixelComponent<f32> for u8 / u16 multiply by the truncated literals 0.003_921_568_6 / 0.000_015_259_02 instead of dividing by MAX",
  "C17.endpoints key=u8->f32|maximum; C17.endpoints key=u16->f32|maximum", "missed (monotone, round trips intact); added endpoints (f32 arithmetic emulated at the two ends)"),
"C18": ("U16, SSE4.1, a horizontal pass with >= 8 taps, a row among the last rows % 4, source pixels >= 0x8000 at odd positions: they enter the sum with a negative weight (a flat 40000 image gives 7844)",
  "u16x1 sse4 horiz_convolution_one_row extracts the odd pixels with _mm_srai_epi32::<16>(source) instead of a logical shift",
  "C18.pixel-sign key=convolution::u16x1::sse4::horiz_convolution_one_row|_mm_srai_epi32|sign-extended", "missed; added pixel-sign"),
}
for sid, (needs, what, caught, missed) in sorted(D.items()):
    log = "/tmp/seed8/%s.confirm.log" % sid
    if not os.path.exists(log) or open(log).read().count("exit=") < 2:
        print("skip", sid)
        continue
    env = dict(os.environ, SEED_ROOT="/tmp/seed8", SRC_ID=sid)
    subprocess.check_call(["python3", S, sid + "h", sid, needs, what, caught, missed], env=env, stdout=subprocess.DEVNULL)
    p = '/verif/seeded/%sh/meta.json' % sid
    m = json.load(open(p))
    if sid == "C16":
        m["confirmed"]["tests_same_passing_set"] = True
        m["confirmed"]["note"] = "the only difference in the list of passing tests is the line number in the name of one doctest"
    for c in m['checks']:
        if ' key=' in c['key']:
            rule, frag = c['key'].split(' key=', 1)
            c['rule'] = rule
            c['key'] = frag
    json.dump(m, open(p, 'w'), indent=1)
