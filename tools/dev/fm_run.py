import sys
from fircheck import progs
from fircheck.engines import formulas
class R:
    def rule(s,*a): pass
    def floor(s,*a): print("floor",a[1:])
    def touch(s,f): pass
    def ok(s,r,k,loc,t,**kw): print("ok ",k,'::',t[:160])
    def bad(s,r,k,loc,t): print("BAD",k,'::',t[:300])
    def unk(s,r,k,loc,t): print("unk",k,'::',t[:200])
prog=progs.program("x86")
for fn in (formulas.coefficients_formula, formulas.nearest_formula, formulas.fit_formula):
    fn(R(),prog,"r")
