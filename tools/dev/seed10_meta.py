#!/usr/bin/env python3
"""writes seeded/<id>i/meta.json for the round-10 seeds whose confirmation log exists"""
import json, os, subprocess
S = '/verif/tools/seed_meta.py'
D = {
"C01": ("U16, SSE4.1 selected, a horizontal pass with >= 8 taps (a downscale), dst_height % 4 != 0 and a filter with negative lobes (Lanczos3, CatmullRom, Mitchell): the last h % 4 rows saturate towards 65535",
  "u16x1 sse4 horiz_convolution_one_row: the 8-coefficient stage multiplies with _mm_mul_epu32 ('the pixels are zero-extended'): a negative coefficient enters as 2^32 + k",
  "C01.lane-pairing key=convolution::u16x1::sse4::horiz_convolution_one_row|_mm_mul_epu32|unsigned-multiply; C18.lane-pairing key=convolution::u16x1::sse4::horiz_convolution_one_row|_mm_mul_epu32|unsigned-multiply; C02.lane-pairing key=convolution::u16x1::sse4::horiz_convolution_one_row|_mm_mul_epu32|unsigned-multiply", "missed (the pairing rule read _mm_mul_epi32 sites only, the unsigned multiply was no site at all); added the unsigned-multiply clause"),
"C02": ("U16x2, AVX2, a horizontal pass with >= 8 taps, dst_height % 4 != 0, content not constant along x: coefficients 2/4 and 3/5 of every 8-block are swapped",
  "u16x2 avx2 horiz_convolution_one_row: the 8-coefficient stage builds its coefficient vectors in the layout of the 4-coefficient stage (k0|k2, k1|k3, k4|k6, k5|k7) while the straight 256-bit load puts pixels 0..3 / 4..7 into the lanes",
  "C02.lane-pairing key=convolution::u16x2::avx2::horiz_convolution_one_row|_mm256_mul_epi32#0|pairing; C01.lane-pairing key=convolution::u16x2::avx2::horiz_convolution_one_row|_mm256_mul_epi32#0|pairing", "caught by the checks as they stood"),
"C03": ("a zero-pixel image (0 x 5) of a pixel type with alignment > 1 over a misaligned borrowed buffer, then any typed access (Resizer::resize): unwrap of InvalidBufferAlignment panics",
  "ImageRef::new and Image::from_slice_u8 skip the alignment test when the image has no pixels; typed_image() still unwraps from_buffer(), which tests it unconditionally",
  "C03.buffers key=new|align; C04.buffers key=new|align", "caught by C04.buffers; the rule now also runs under C03"),
"C04": ("a view whose width or height is exactly u32::MAX (a custom ImageView) and a box with a non-zero origin whose origin + size exceeds u32::MAX: accepted",
  "check_crop_box bounds left.saturating_add(width) by img_width (and top / height): a clamped sum equals an image size of u32::MAX",
  "C04.crop-u32 key=left+width|saturated; C03.crop-validate-u32 key=left+width|saturated", "missed (UNDECIDED: unrecognised guard form); a saturating sum as the bound is now a violation with its witness"),
"C05": ("change_type_of_pixel_components with images of equal width and different height: Ok(()) although rows stay unconverted / the destination of a call that must fail is written",
  "change_type_of_pixel_components_typed: the height comparison became `height != src_image.height()` with height = src_image.height() (always false)",
  "C05.convert-reject key=dimensions; C17.reject key=dimensions", "caught by C17.reject; the rule now also runs under C05"),
"C06": ("U8x2, divide_alpha, SSE4.1 (or the AVX2 row tail), alpha not constant along the row: pixels 4..7 of every 8-pixel group are divided by the alpha of the pixel two places to the left",
  "u8x2 sse4 divide_alpha_8_pixels: one shuffle mask for both halves, the upper four pixels are 'moved down' with _mm_srli_si128::<4> (4 bytes = two U8x2 pixels, not four)",
  "C06.provenance key=alpha::u8x2::sse4::divide_alpha_8_pixels|cross-pixel; C02.alpha-provenance key=alpha::u8x2::sse4::divide_alpha_8_pixels|cross-pixel", "missed (UNDECIDED: the byte shift of a whole register was not modelled); the byte-level evaluation now follows _mm_(b)srli/slli_si128"),
"C07": ("U16x2, alpha handling on, SSE4.1 / AVX2, a convolution, source width % 4 in 2..3: the last one or two columns of the premultiplied scratch image keep old content",
  "u16x2 sse4 multiply_alpha_row (two-image): the tail after chunks of 4 handles only remainder.first() / get_mut(0) (the u16x4 pattern, where a chunk is 2 pixels)",
  "C07.tail-complete key=alpha::u16x2::sse4::multiply_alpha_row|first|partial-tail; C05.tail-complete key=alpha::u16x2::sse4::multiply_alpha_row|first|partial-tail; C09.tail-complete key=alpha::u16x2::sse4::multiply_alpha_row|first|partial-tail", "caught by C05.tail-complete; the rule now also runs under C07 and C09"),
"C08": ("rayon feature, an in-place alpha operation (or a resize with alpha) and a split that declines (a pool of one thread, a small image): nothing is done, Ok(()) returned",
  "process_one_images!: the labelled block with the fall-through `$op(whole_image)` became two cfg arms; with rayon on there is no fall-through when the split returns None",
  "C08.offset-once key=divide_alpha_inplace|same-op", "caught by the checks as they stood"),
"C09": ("SuperSampling with factor > 1.2 on a source that uses the default iter_rows_with_step (cropped view, TypedImage), sizes whose quotient lands an ulp below k + 0.5, a reused Resizer: the last row of the scratch image is stale",
  "ImageView::iter_rows_with_step (trait default): the number of rows is round(..) instead of ceil(..)",
  "C09.step-count key=image_view::ImageView::iter_rows_with_step|rows-lost; C05.step-count key=image_view::ImageView::iter_rows_with_step|rows-lost; C13.step-count key=image_view::ImageView::iter_rows_with_step|rows-lost", "caught by C05 / C13.step-count; the rule now also runs under C09"),
"C11": ("ResizeOptions::crop with a box whose size equals the destination and whose left or top has a fractional part >= 0.5, Nearest: every pixel is taken one column / row too early",
  "copy_image (the same-size shortcut before any algorithm) compares only crop width / height with the destination as f64; left and top are no longer required to be whole numbers",
  "C11.copy-cond key=integral|left; C12.copy-cond key=integral|left; C07.copy-cond key=integral|left", "caught by C12 / C07.copy-cond; the rule now also runs under C11 (and takes `size == dst as f64` as integrality of the size)"),
"C12": ("an f32 pixel type whose row has components % 4 != 0, SSE4.1, a vertical-only resize (dst width == crop width) of an integer crop with left > 0: the last 1..3 components come from columns shifted by left",
  "vertical_f32 sse4: the scalar tail is handed tail_x = row_len - remainder.len() (a destination index) instead of the running src_x",
  "C12.offset-flows key=vert_convolution_into_one_row_f32|convolution_by_f32", "caught by the checks as they stood"),
"C13": ("Nearest (or SuperSampling's first step) with a non-integral vertical shrink factor on a TypedImage / cropped view (the trait default), not on Image / ImageRef (own override): other rows than through the dynamic entry point",
  "ImageView::iter_rows_with_step (trait default): the inner loop of next() became rows.nth(skip) with skip = floor(step) - 1 fixed before the loop",
  "C13.row-cursor key=image_view::ImageView::iter_rows_with_step|nth|distance|position-independent", "missed; added row-cursor"),
"C14": ("the immutable split_by_width of a cropped view with top > 0 (rayon: vertical pass over a cropped source): parts expose rows 0..height of the inner view",
  "TypedCroppedImage(Mut)::split_by_width re-wraps each part with TypedCroppedImage::new(img, 0, 0, ..) instead of (img, 0, self.top, ..)",
  "C14.offsets key=split_by_width|rewrap", "caught by the checks as they stood"),
"C15": ("fit_into_destination with a centering component strictly between 0 and 1 other than 0.5 in the cropped dimension: (0.25, 0.5) gives the box of centering 0",
  "CropBox::fit_src_into_dst_size: left = (width * centering.0 - crop_width / 2).min(width - crop_width).max(0) ('keep the requested point in the middle'); same for top",
  "C15.formula key=crop_left|witness", "missed (UNDECIDED: min / max are opaque to the polynomial comparison); the expression is now evaluated at three sample points"),
"C16": ("the gamma-2.2 mapper, backward direction, a 16-bit destination: 32537 of 65536 entries are 2..3 levels off",
  "color::mappers: linear_into_gamma uses a 'precomputed reciprocal' INV_GAMMA = 0.4545 instead of 1.0 / 2.2",
  "C16.shape key=gamma_into_linear|inverse-at-0.37", "missed (the inverse pairing was tested at breakpoints only, gamma has none); added the interior points"),
"C17": ("change_type_of_pixel_components for a 1..3-component type with width * components % 4 != 0: the last 1..3 components of each row are not converted",
  "change_type_of_pixel_components_typed walks the components with chunks_exact(4) / chunks_exact_mut(4) and never takes the remainder",
  "C17.convert-all key=change_type_of_pixel_components_typed|chunks_exact|remainder|dropped", "missed; added the remainder clause of convert-all"),
"C18": ("a u8 type, AVX2, a vertical pass with width * components % 4 != 0, >= 3 taps: the last 1..3 components of a row are truncated, a flat image of 200 comes out 199",
  "vertical_u8 avx2: `let half = PRECISION - 1` is used for the SIMD constants as 1 << half, the scalar tail native::convolution_by_u8 receives `half` itself as initial",
  "C18.tail-initial key=convolution::vertical_u8::avx2::vert_convolution_into_one_row|convolution_by_u8|initial|not-half-unit; C01.tail-initial key=convolution::vertical_u8::avx2::vert_convolution_into_one_row|convolution_by_u8|initial|not-half-unit", "missed; added tail-initial"),
}
for sid, (needs, what, caught, missed) in sorted(D.items()):
    log = "/tmp/seed10/%s.confirm.log" % sid
    if not os.path.exists(log) or open(log).read().count("exit=") < 2:
        print("skip", sid)
        continue
    env = dict(os.environ, SEED_ROOT="/tmp/seed10", SRC_ID=sid)
    subprocess.check_call(["python3", S, sid + "j", sid, needs, what, caught, missed], env=env, stdout=subprocess.DEVNULL)
    p = '/verif/seeded/%sj/meta.json' % sid
    m = json.load(open(p))
    for c in m['checks']:
        if ' key=' in c['key']:
            rule, frag = c['key'].split(' key=', 1)
            c['rule'] = rule
            c['key'] = frag
    json.dump(m, open(p, 'w'), indent=1)
