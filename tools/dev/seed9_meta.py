#!/usr/bin/env python3
"""writes seeded/<id>i/meta.json for the round-9 seeds whose confirmation log exists"""
import json, os, subprocess
S = '/verif/tools/seed_meta.py'
D = {
"C01": ("a vertical 8-bit pass with (width * channels) % 4 != 0 (scalar tail), a filter with negative lobes and a dark area next to a bright one: a negative sum is stored as 255 (any back-end; a two-pass resize spreads it)",
  "vertical_u8 native convolution_by_u8 stores u8::try_from(ss >> precision).unwrap_or(u8::MAX) instead of normalizer.clip(ss)",
  "C01.native-clip key=convolution::vertical_u8::native::convolution_by_u8|store|not-clip; C18.native-clip key=convolution::vertical_u8::native::convolution_by_u8|store|not-clip", "missed (the saturation rule read the SIMD kernels only); added native-clip"),
"C02": ("a float format, SSE4.1 selected, a vertical pass whose row length in floats % 8 is 4..7: the last 4-float group is accumulated in f32 (121 ulp on cancelling data)",
  "vertical_f32 sse4: the 4-component stage calls a new helper that keeps one __m128 accumulator (coeff as f32, mul_ps / add_ps)",
  "C02.f64-accumulate key=convolution::vertical_f32::sse4::multiply_4_components_of_rows; C01.f64-accumulate key=convolution::vertical_f32::sse4::multiply_4_components_of_rows", "caught by the checks as they stood"),
"C03": ("a zero-width image over a non-empty buffer and an operation that iterates rows without its own zero-size exit: chunks_exact(0) panics",
  "iter_rows(_mut) of the owned containers choose the chunk size 1 'if the image has no pixels' by pixels.is_empty() instead of width == 0",
  "C03.view-rows key=iter_rows; C05.view-rows key=iter_rows; C13.view-offsets key=iter_rows", "caught by C05 / C13; rule now also under C03"),
"C04": ("an explicit crop box with a +inf width or height and a valid position: resize panics in the validation instead of returning SizeIsOutOfImageBoundaries",
  "CroppedSrcImageView::crop gets assert!(right.is_finite() && bottom.is_finite()) after the NaN checks",
  "C04.no-panic key=CroppedSrcImageView::<'a, T>::crop|assert; C03.validators-no-panic key=CroppedSrcImageView::<'a, T>::crop|assert", "missed; added no-panic (validating functions contain no explicit panic)"),
"C05": ("a 16-bit pixel type, SSE4.1, a vertical pass and width * components % 8 in 1..3: the last 1..3 components of every destination row are never written",
  "vertical_u16 sse4 returns early when fewer than 4 components remain after the 8-component stage, before the scalar tail",
  "C05.tail-reached key=convolution::vertical_u16::sse4::vert_convolution_into_one_row_u16|tail|bypassed", "missed; added tail-reached"),
"C06": ("U8x4, AVX2, an aligned block of 8 pixels whose first four are transparent and whose last four are not: the whole block becomes zero (alpha included)",
  "u8x4 multiply primitives get an all-transparent fast path; the AVX2 copy compares the 8-bit movemask with 0xf",
  "C06.movemask-const key=alpha::u8x4::avx2::multiply_alpha_8_pixels|_mm256_movemask_ps|partial-mask", "missed; added movemask-const"),
"C07": ("F32x2, alpha handling on, a resampled luma / alpha above 1.0 (overshoot of a filter with negative lobes, HDR data): the result of an opaque image differs from the one without alpha handling",
  "the F32x2 divide kernels (native, SSE4.1, AVX2) saturate the quotient at 1.0",
  "C07.float-unsaturated key=alpha::f32x2::avx2::divide_alpha_8_pixels|_mm256_min_ps; C06.float-unsaturated key=alpha::f32x2::avx2::divide_alpha_8_pixels|_mm256_min_ps", "missed; added float-unsaturated"),
"C08": ("rayon, > 1 thread, a vertical pass into a 64-byte-aligned destination whose rows are multiples of 64 bytes and width / threads not a multiple of a cache line: destination bands are aligned to cache lines, source bands are not",
  "the default split_by_width_mut rounds the step up to a multiple of the cache line when all rows are line-aligned; the immutable split keeps the balanced sizes",
  "C08.band-sizes key=image_view::ImageViewMut::split_by_width_mut|step-reassigned; C14.sizes key=image_view::ImageViewMut::split_by_width_mut|step-reassigned", "missed (step and surplus were there; the step is assigned again); added the step-reassigned clause"),
"C09": ("U16x4, AVX2, alpha handling on, a reused (or cloned) Resizer and a source row with an aligned group of four fully transparent pixels: the earlier image shows through",
  "u16x4 avx2 two-image multiply_alpha_row skips the store for a group whose alphas are all zero ('contributes nothing')",
  "C09.chunk-stores key=alpha::u16x4::avx2::multiply_alpha_row|{closure#1}|skipped; C06.divide-every-chunk key=alpha::u16x4::avx2::multiply_alpha_row|{closure#1}|skipped", "missed (store-every-pixel read zip loops, not the pre-reading closures); the chunk-store rule now covers the two-image routines"),
"C11": ("rayon, > 1 thread, Nearest, dst_height % bands != 0: every band after the first starts up to r destination rows too early",
  "resample_nearest gets a rayon path; split_h_one_image_with_offsets_for_threading reports the first row of band i as i * (height / num_parts)",
  "C11.band-rows key=resizer::resample_nearest::{closure#1}|nearest_rows|restart; C08.float-restart key=resizer::resample_nearest::{closure#1}|nearest_rows|restart", "missed (the rule looked for iter_rows_with_step in the closure itself); it now follows a row-walking helper"),
"C12": ("an alpha pixel type with alpha handling on, an integer crop with top > 0, dst height == crop height and another width: destination row y is built from source row 2 * top + y",
  "resample_convolution premultiplies only the crop's rows into a scratch image of dst_height rows and still wraps it with the source's crop box",
  "C12.scratch-box key=premultiply|box-not-translated; C09.sizing key=premultiply|box-not-translated; C07.premultiply-whole key=premultiply|box-not-translated", "missed (UNDECIDED: a band); a band wrapped with the untranslated box is a violation"),
"C13": ("a dynamic CroppedImageMut with left != top used as the SOURCE of an operation: it reads the region mirrored at the diagonal",
  "IntoImageView for CroppedImageMut::image_view builds TypedCroppedImage::new(view, self.top, self.left, ..)",
  "C13.geometry-roles key=image_view|<'a, V>::new|roles", "missed; added geometry-roles"),
"C14": ("TypedImage over an oversized buffer (or of zero width) and split_by_height_mut with a band beyond height(): Some(parts) that expose pixels outside the image",
  "TypedImage::split_by_height_mut keeps only num_parts > height and relies on get_mut(first..last)? for the band",
  "C14.guards key=split_by_height_mut|height <= self.height(); C08.split-guards key=split_by_height_mut|height <= self.height()", "caught by the checks as they stood"),
"C15": ("fit_into_destination(Some(c)) with a component outside [0, 1] (1.5, -0.25, inf): centre cropping instead of cropping at the border; (0.0, 7.0) loses the valid x too",
  "the builder replaces a pair that is not inside [0, 1] x [0, 1] by the default (0.5, 0.5) (Option::filter) before storing it",
  "C15.centering-stored key=fit_into_destination|payload|altered", "missed; added centering-stored"),
"C16": ("backward_map_inplace, any pixel type and mapper, any value other than 0 and max: the forward function is applied",
  "PixelComponentMapper::backward_map_inplace calls map_inplace(&self.forward_mapping_tables, ..) (body copied from its sibling)",
  "C16.direction key=backward_map_inplace|other-group", "missed; added direction"),
"C17": ("change_type_of_pixel_components with an empty image on one side: pairs of different size or component count return Ok(())",
  "the dynamic entry point returns Ok(()) early when any side of either image is zero, before the table and the dimension check",
  "C17.dynamic-no-shortcut key=change_type_of_pixel_components|literal-ok", "missed; added dynamic-no-shortcut"),
"C18": ("F32, AVX2, a horizontal pass with >= 8 taps, Box with a shrink factor whose reciprocal rounds badly in f32 (56, 60, 112..126, ...) and values in the upper sixteenth of a binade: a flat image comes out 2 ulp above its only value",
  "f32x1 avx2 horiz_convolution_rows: the 8-coefficient step narrows the coefficients to f32 and multiplies with _mm256_mul_ps; only the f32 products are widened and accumulated",
  "C18.f64-accumulate key=convolution::f32x1::avx2::horiz_convolution_rows|_mm256_mul_ps|single-precision; C01.f64-accumulate key=convolution::f32x1::avx2::horiz_convolution_rows|_mm256_mul_ps|single-precision", "caught by the checks as they stood"),
}
for sid, (needs, what, caught, missed) in sorted(D.items()):
    log = "/tmp/seed9/%s.confirm.log" % sid
    if not os.path.exists(log) or open(log).read().count("exit=") < 2:
        print("skip", sid)
        continue
    env = dict(os.environ, SEED_ROOT="/tmp/seed9", SRC_ID=sid)
    subprocess.check_call(["python3", S, sid + "i", sid, needs, what, caught, missed], env=env, stdout=subprocess.DEVNULL)
    p = '/verif/seeded/%si/meta.json' % sid
    m = json.load(open(p))
    for c in m['checks']:
        if ' key=' in c['key']:
            rule, frag = c['key'].split(' key=', 1)
            c['rule'] = rule
            c['key'] = frag
    json.dump(m, open(p, 'w'), indent=1)
