import sys
from fircheck import progs
from fircheck.engines import roundbudget
import collections
class R:
    c=collections.Counter()
    def rule(s,*a): pass
    def floor(s,*a): print("floor",a[1:])
    def touch(s,f): pass
    def ok(s,r,k,loc,t,**kw): R.c['ok']+=1
    def bad(s,r,k,loc,t): R.c['bad']+=1; print("BAD",k,t[len(k)-5:][:170])
    def unk(s,r,k,loc,t): R.c['unk']+=1; print("unk",k,'::',t[:150])
roundbudget.budget(R(),progs.program(sys.argv[1]),"r")
print(R.c)
