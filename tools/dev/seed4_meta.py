#!/usr/bin/env python3
"""writes seeded/<id>d/meta.json for the round-4 seeds whose confirmation log exists"""
import os, subprocess, sys
S = '/verif/tools/seed_meta.py'
D = {
"C01": ("C01", "U8x4, AVX2 back-end, a horizontal window of at least 8 coefficients (down-scaling) and one of the last height % 4 rows: every sample whose ideal value has a fractional part below 0.5 comes out one unit too high (error up to 1.0)",
  "u8x4 avx2 horiz_convolution_one_row: the rounding terms are hoisted out of the loop; the 256-bit accumulator, whose two halves are added at the end, is seeded with 1 << (PRECISION-1) in both halves instead of 1 << (PRECISION-2)",
  "C01.round-budget; C02.round-budget; C18.round-budget", "missed by C01 (C02 / C18 fired); round-budget now runs under C01 too"),
"C02": ("C02", "f32 pixel type, AVX2, a vertical-only resize (dst width == crop width) of a crop with integer left >= 1, and width * channels >= 8 not a multiple of 8: the last 8 components of every row are convolved from source columns shifted left by the offset",
  "vertical_f32 avx2: the scalar tail is replaced by one overlapping last vector; its source index is the destination position row_len - 8, so the column offset src_x is dropped for that vector",
  "C02.offset-flows", "missed; added C02.offset-flows (every source access of a vertical kernel depends on the cursor src_x)"),
"C03": ("C03", "FilterType::Custom with zeros on the sample positions (naive box |x| < 0.5) in a geometry where destination centres land on source pixel borders (crop shifted by half a pixel; Interpolation 2x): a destination pixel other than the first gets an all-zero window: panic 'attempt to subtract with overflow' (debug), SIGSEGV (release)",
  "precompute_coefficients trims trailing zero weights with coeffs.iter().rev().take_while(|c| c == 0).count() over the whole coefficient vector instead of the loop guarded by bound_end > bound_start",
  "C03.bounds-trim", "missed (bound_end - bound_start was UNDECIDED before and after); added C03.bounds-trim"),
"C04": ("C04", "PixelType::I32 and a byte buffer whose address is not a multiple of 4 (&buf[1..]): ImageRef::new / Image::from_slice_u8 / from_vec_u8 return Ok, typed_image() / resize later unwrap InvalidBufferAlignment",
  "PixelType::is_aligned rewritten as an address test with align_of of the component type; I32 falls into the `_ => align_of::<u8>()` arm",
  "C04.align-table", "missed; added C04.align-table"),
"C05": ("C05", "ResizeAlg::Nearest from a source that uses the default iter_rows_with_step (CroppedImage, TypedCroppedImage, TypedImage; not Image / ImageRef) with a box that reaches the bottom of the view and a height pair whose quotient comes out just below k + 0.5 (128 -> 160, 100 -> 48; about 12 % of the pairs): the last destination row keeps its previous contents",
  "the default ImageView::iter_rows_with_step rounds the number of steps with .round() instead of .ceil()",
  "C05.step-count; C13.step-count", "missed; added the step-count rule"),
"C06": ("C06", "U16x2 / U16x4 divide_alpha on the portable back-end (CpuExtensions::None) and a (colour, alpha) pair with a large colour and an alpha whose reciprocal is not exact (about 0.36 % of the pairs with c <= a; 54316 / 54321 gives 65530, only 65528 or 65529 are allowed)",
  "RECIP_ALPHA16 shrinks to [u32; 65536] with PRECISION16 = 15 (entries still correctly rounded, the crate's unit test adapts); div_and_clip16 loses its saturating arithmetic",
  "C06.recip-table16", "missed; added C06.recip-table16 (driver exports the 65536-entry table; quotient error budget, then a witness pair)"),
"C07": ("C07", "SuperSampling(filter, 1) with the same down-scale factor > 1.2 in both directions (first-step size == destination size), alpha handling on, an alpha pixel type and source pixels with alpha 0 and non-zero colour: they are copied verbatim",
  "resample_super_sampling writes the nearest-neighbour step straight into the destination and returns when it already has the destination size, skipping resample_convolution(.., use_alpha)",
  "C07.supersampling-alpha", "missed; added C07.supersampling-alpha"),
"C08": ("C08", "rayon feature, more than one thread, ResizeAlg::Nearest (or the first step of SuperSampling), a destination large enough to be split and a height ratio that puts row centres on or near source-row boundaries (720 -> 1080 for every thread count, 568 -> 1310 for 5, 9-11, 13-16 threads): a band copies the neighbouring source row",
  "resample_nearest gets a rayon path: the destination is split into bands and each band starts its own iter_rows_with_step at y_in_start + y_scale * top as f64 instead of the accumulated position",
  "C08.float-restart", "missed; added C08.float-restart"),
"C09": ("C09", "one Resizer reused for three scratch-using resizes with scratch sizes n1 < n2 < n3 <= 2*n1 (U8x4 64x64, U16x4 48x48, F32x4 40x40): the third panics 'range end index out of range'; fresh, reset or cloned resizers work",
  "get_temp_image_from_buffer grows the scratch buffer when buffer.capacity() < buf_size (the same edit as seeded change C03c, made independently for C09)",
  "C09.scratch-grow; C09.state-independence; C03.scratch-grow", "caught by the checks as they stood"),
"C11": ("C11", "Nearest from an Image / ImageRef / TypedImageRef source with more than 2^32 pixels (70001 x 70001 U8) and a destination row that maps to a source row with row * width >= 2^32: release builds copy a row from the wrapped offset, debug builds panic",
  "TypedImageRef::iter_rows_with_step keeps row index and row size in u32 ('like iter_rows()') and computes the row offset as (cur_row_y * row_size) as usize",
  "C11.arith; C03.arith", "missed (the closure's product was UNDECIDED); the witness search now resolves closure captures; C11.arith added"),
"C12": ("C12", "rayon feature, at least 2 threads, a destination of at least 1 MiB and the copy fast path (integer crop box, destination size == crop size) with crop top > 0: every band receives source rows shifted down by top, its last top rows are never written, resize still returns Ok",
  "copy_image copies big images in bands on the thread pool: split_h_two_images_for_threading(src, dst, top) and then CroppedSrcImageView::crop_unchecked(&band, crop_box) with the original crop box, so the row offset is applied twice",
  "C12.offset-once; C08.offset-once", "missed (UNDECIDED: two calls in the band closure); offset-once now rejects a band closure that uses the offset's source again"),
"C13": ("C13", "rayon feature, more than one thread, a TypedImage source through the typed entry point (or a TypedCroppedImage over one) and a horizontally split operation that starts at a row > 0 (crop box with integer top > 0 and a single horizontal pass; typed cropped view with top > 0): the bands are taken from rows shifted up by start_row; Image / ImageRef / TypedImageRef sources stay correct",
  "TypedImage::split_by_height computes each part's offset directly as first_row = i * step + min(i, modulo), relative to the band, and uses it as an absolute row of the image; start_row only bounds the end",
  "C13.band-start; C14.band-start", "missed; added the band-start rule (lower bound of the parts' pixel slices)"),
"C14": ("C14", "a TypedCroppedImageMut / CroppedImageMut whose crop has left != top, split by width through the mutable method: every part is re-cropped to rows [left, left + height) of the inner view (wrong pixels; panic when left + height exceeds the inner height); with rayon this is the vertical pass of a cropped destination",
  "TypedCroppedImageMut::split_by_height_mut / split_by_width_mut copy the crop geometry into locals first; the by-width one reads (start_col + self.left, self.left, self.height): the vertical offset is the crop's left",
  "C14.offsets", "caught, but together with a false alarm on the correct by-height half of the refactor (locals captured by the re-wrapping closure were not resolved); fixed, benign-split-geometry-locals"),
"C15": ("C15", "a source taller than the destination's aspect ratio (top / bottom cropped) and a centering whose two components differ after clamping ((0.5, 0.0), (0.0, 1.0)): the vertical offset is margin * centering.0",
  "the last step of fit_src_into_dst_size moves into a helper place_inside that distributes 'the one margin' and multiplies it by centering.0 in both cases",
  "C15.formula", "missed (UNDECIDED: the locals of the formula were gone); C15.formula now follows the helper and resolves correlated branches"),
"C16": ("C16", "mapping with a 16-bit source and an 8-bit destination (U16* -> U8*), forward or backward: 16865 of the 65536 entries of the sRGB 16 -> 8 table are one too low; sRGB8 5 -> linear16 -> sRGB8 gives 4",
  "a shared constructor MappingTablesGroup::new derives the 16 -> 8 table from the 16 -> 16 table with into_component (high byte) instead of calling the transfer function",
  "C16.table-ctor", "missed; added C16.table-ctor"),
"C17": ("C17", "F32 -> I32 with a component of exactly 1.0 or above (or <= -1.0): 2^24 << 7 = 2^31 wraps to i32::MIN, so the maximum is not mapped to the maximum, monotonicity breaks at the top and out-of-range input wraps instead of saturating",
  "IntoPixelComponent<i32> for f32 quantises to 24 bits and widens with << 7 instead of multiplying by i32::MAX as f32 and relying on the saturating cast",
  "C17.mono", "missed; mono.analyse now treats a result that leaves the output integer type as wrapped"),
"C18": ("C18", "f32 pixel type, AVX2, a vertical pass, (width * channels) mod 8 in 4..=7 and a window with several taps (down-scale): the 4 components after the last block of 8 are accumulated in single precision and land up to 24 ulp outside the source range (3000 -> 7 rows)",
  "vertical_f32 avx2 gets a 4-component block whose helper casts each f64 coefficient to f32 and multiplies / sums with _mm_mul_ps / _mm_add_ps",
  "C18.f64-accumulate; C02.f64-accumulate; C01.f64-accumulate", "missed; added the f64-accumulate rule"),
}
for sid, (prop, needs, what, caught, missed) in sorted(D.items()):
    log = "/tmp/seed4/%s.confirm.log" % sid
    if not os.path.exists(log) or open(log).read().count("exit=") < 2:
        print(sid, "not confirmed yet"); continue
    if len(sys.argv) > 1 and sid not in sys.argv[1:]:
        continue
    env = dict(os.environ, SEED_ROOT="/tmp/seed4", SRC_ID=sid)
    subprocess.check_call([sys.executable, S, sid + "d", prop, needs, what, caught, missed], env=env,
                          stdout=subprocess.DEVNULL)
    print(sid, "meta written")
