#!/usr/bin/env python3
"""tools/dev/add_claim.py: insert sentences into tools/claims.py texts before their final
'NOT decided' sentence (ADD below), rewrite claims.py pprint-formatted."""
import pprint, sys
sys.path.insert(0, '/verif/tools')
import claims

ADD = {}
exec(open(sys.argv[1]).read())   # defines ADD = {prop: sentence}

for k, s in ADD.items():
    t = claims.CLAIMS[k]['text']
    if s in t:
        continue
    i = t.rfind("NOT")
    j = max(t.rfind(". ", 0, i), t.rfind(".; ", 0, i)) if i >= 0 else -1
    if j < 0:
        t = t.rstrip() + " " + s
    else:
        cut = j + (3 if t[j:j + 3] == ".; " else 2)
        t = t[:cut] + s.rstrip() + " " + t[cut:]
    claims.CLAIMS[k]['text'] = t
src = open('/verif/tools/claims.py').read()
head = src[:src.index("CLAIMS = ")]
after = src[src.index("\nNOT_APPLICABLE = "):]
open('/verif/tools/claims.py', 'w').write(head + "CLAIMS = " + pprint.pformat(claims.CLAIMS, width=100, sort_dicts=False) + "\n" + after)
