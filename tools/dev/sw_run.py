import sys, collections
from fircheck import progs
from fircheck.engines import storewidth
class R:
    c=collections.Counter()
    def rule(s,*a): pass
    def floor(s,*a): print("floor",a[1:])
    def note(s,t): print("note",t)
    def touch(s,f): pass
    def ok(s,r,k,loc,t,**kw): R.c['ok']+=1; print("ok ",k[:110],'::',t[:110])
    def bad(s,r,k,loc,t): R.c['bad']+=1; print("BAD",k,'::',t[:300])
    def unk(s,r,k,loc,t): R.c['unk']+=1; print("unk",k[:130],'::',t[:140])
storewidth.check(R(),progs.program(sys.argv[1] if len(sys.argv)>1 else "x86"),"r")
print(R.c)
