import sys, time, re, signal
from fircheck import progs
from fircheck.engines import roundbudget as rb
from fircheck.sym import short
prog=progs.program(sys.argv[1])
class TO(Exception): pass
def h(*a): raise TO()
signal.signal(signal.SIGALRM,h)
for f in sorted(prog.fns.values(), key=lambda x:x.id):
    if not re.match(r"^convolution::(u8x\d|u16x\d|vertical_u8|vertical_u16)::", f.name): continue
    sinks=[c for c in f.calls() if rb.SHIFT_SINK.match(c.method or short(c.name)) or ((c.method or short(c.name))=="clip" and "Normalizer" in c.name)]
    if not sinks: continue
    t=time.time(); signal.alarm(20)
    try:
        ev=rb.Eval(prog,f)
        for c in sinks:
            ai=1 if (c.method or short(c.name))=="clip" else 0
            r=ev.ev_op(c.args[ai],(c.bb,"term"))
        signal.alarm(0)
        dt=time.time()-t
        if dt>1: print("%.1fs"%dt, f.name, len(sinks))
    except TO:
        print("TIMEOUT", f.name, len(sinks))
