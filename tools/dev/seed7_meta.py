#!/usr/bin/env python3
"""writes seeded/<id>g/meta.json for the round-7 seeds whose confirmation log exists"""
import json, os, subprocess
S = '/verif/tools/seed_meta.py'
D = {
"C01": ("a u16 pixel type, SSE4.1, a vertical reduction by 8 or more (largest coefficient <= 1/8, precision >= 33), (dst_width * components) % 16 >= 8, a filter with negative lobes next to an edge: a sample whose ideal value is 0 comes out as 65535",
  "vertical_u16 sse4: the eight-components stage replaces the scalar normalizer.clip() by the logical _mm_srl_epi64 + shuffle_ps + _mm_packus_epi32 ('a negative sum keeps its sign bit in the low half')",
  "C01.arith-shift key=convolution::vertical_u16::sse4::vert_convolution_into_one_row_u16|_mm_srl_epi64|logical; C18.arith-shift key=convolution::vertical_u16::sse4::vert_convolution_into_one_row_u16|_mm_srl_epi64|logical", "missed (packus is a saturating narrowing); added arith-shift"),
"C02": ("U8x3, AVX2, a horizontal pass, a destination row among the last dst_height % 4 rows, a window of 12..15 (20..23, ...) coefficients: the products of the source pixels x+2 and x+3 of the 4-coefficient step are dropped",
  "u8x3 avx2 horiz_convolution_one_row: the 4-coefficient step is rewritten after the 8-coefficient one and reuses its shuffle pair sh1 / sh2; sh2 takes the high lane's coefficients from bytes 8..11, which loadl_epi64 zeroed",
  "C02.lane-pairing key=convolution::u8x3::avx2::horiz_convolution_one_row|coverage|next@62|loaded-unused", "missed (the coverage clause counted up to the largest coefficient that was used); added loaded-unused"),
"C03": ("a cropped view (TypedCroppedImage / CroppedImage(Mut)) and a direct split_by_*(start >= 2^32 - size, ..): start + size overflows (panic in debug; in release the parts lie outside the view and writes reach parent pixels)",
  "the four argument checks of the cropped views' splits are folded into one helper is_valid_split: num_parts <= size && start + size.get() <= total",
  "C03.arith key=images::typed_cropped_image::is_valid_split|Overflow(Add)(start, get(size)); C14.guards key=split_by_height|height <= self.height()", "caught by the checks as they stood"),
"C04": ("an explicit crop box that overhangs the right / bottom edge by at most f32::EPSILON * size (4x4: crop(0, 0, 4.0000003, 4)): resize returns Ok and resamples the clamped box instead of SrcCroppingError",
  "ResizeOptions::get_crop_box passes a user box through snap_to_border(pos, size, img_size) before CroppedSrcImageView::crop validates it",
  "C04.crop-route key=resizer::ResizeOptions::get_crop_box|payload|modified", "missed (crop-passthrough only looked at the constructors of the view); added crop-route"),
"C05": ("rayon, >= 2 threads, a cropped view as source of a horizontal pass, dst_height % parts != 0: source bands 25,26,26,26 are zipped with destination bands 26,26,26,25; the last row of the first band keeps its old content",
  "TypedCroppedImage(Mut)::split_by_height builds its parts directly at the borders height * i / num_parts (surplus rows go to the last parts)",
  "C05.band-sizes key=split_by_height|other-distribution; C08.band-sizes key=split_by_height|other-distribution; C13.split-siblings key=split_by_height|other-distribution", "caught by C08 / C13 (rule of round 6); now also under C05"),
"C06": ("U16x4, two-image multiply_alpha, a source pixel with alpha 0xffff handled by the portable kernel (every pixel without SIMD, the last column of an odd width with SSE4.1 / AVX2), a destination that does not hold that pixel already",
  "u16x4 native multiply_alpha_row and multiply_alpha_row_inplace get `if alpha == 0xffff { continue; }` -- correct in place, a missing store in the two-image routine",
  "C06.store-every-pixel key=alpha::u16x4::native::multiply_alpha_row|dst_pixel|skipped; C05.store-every-pixel key=alpha::u16x4::native::multiply_alpha_row|dst_pixel|skipped", "missed; added store-every-pixel"),
"C07": ("an alpha pixel type, Convolution / Interpolation / SuperSampling, a crop box whose four parts are within 1e-6 of whole numbers (not all exact) and a destination of the rounded size: raw copy, no premultiply / divide",
  "copy_image treats crop parts within WHOLE_NUMBER_TOLERANCE = 1e-6 of an integer as whole and rounds them (iter_cropped_rows rounds too)",
  "C07.copy-cond key=dim|height; C12.copy-cond key=dim|height", "caught by C12 (copy-cond); now also under C07"),
"C08": ("rayon, a pool of N > 1 threads, u8 components, both passes needed, a source narrower than about N pixels and a destination tall enough for N bands: the horizontal pass runs first and the u8 intermediate rounds differently",
  "do_convolution chooses the order of the passes with threading::is_too_narrow_for_vert_pass(width, height), which reads current_num_threads()",
  "C08.pool-size-use key=threading::is_too_narrow_for_vert_pass|current_num_threads|not-a-splitter", "missed; added pool-size-use"),
"C09": ("set_cpu_extensions(X) with X != the detected default, then reset_internal_buffers(), then an alpha-aware resize of U16x2 / U16x4 / F32x4: premultiply / divide run on the default back-end",
  "reset_internal_buffers replaces *self with Self { cpu_extensions: self.cpu_extensions, ..Default::default() }: mul_div (its own copy of the CPU extensions) is reset",
  "C09.backend-writes key=resizer::Resizer::reset_internal_buffers|replaced|mul_div", "missed; added backend-writes"),
"C11": ("Nearest, a sub-pixel sliver flush against the right border, up-scaling so extreme that crop_width / dst_width is below half the spacing of doubles there (W=1000: 1e-13), dst_width >= 2: several trailing positions round to src_width",
  "resample_nearest clamps only the last entry of the column table (`x_in_tab.last_mut()`), 'the positions grow monotonically'",
  "C11.index key=x_in|unclamped; C03.index-nearest key=x_in|unclamped", "missed (UNDECIDED: entries not clamped); an unclamped table that is only repaired at single entries is now a violation"),
"C12": ("rayon, > 1 thread, a cropped view as source, no premultiplication, a vertical pass with a non-zero column offset (dst width == integer-aligned crop width, crop.left != 0): dst column x shows view column x",
  "TypedCroppedImage(Mut)::split_by_width crops its parts directly with a running `left` that starts at self.left instead of self.left + start_col",
  "C12.band-start-used key=split_by_width|start-dropped; C14.start-used key=split_by_width|start-dropped; C08.start-used key=split_by_width|start-dropped", "missed (C14.offsets / positions UNDECIDED on the new shape); added start-used (taint)"),
"C13": ("U16x2, the dynamic MulDiv::divide_alpha_inplace (Image, CroppedImageMut, any IntoImageViewMut): the image is premultiplied instead of divided; the typed entry point divides",
  "MulDiv::divide_alpha_inplace: the U16x2 arm calls self.multiply_inplace::<U16x2>(image)",
  "C13.table key=mul_div::MulDiv::divide_alpha_inplace|P<[u16; C06.table key=mul_div::MulDiv::divide_alpha_inplace|P<[u16", "missed (the arm instantiates the right pixel type); callee-agreement clause added to the table rule"),
"C14": ("a default mutable split (split_by_width_mut of TypedImage, ...) followed by split_by_height_mut on one of the parts with num_parts != height: None for a valid request",
  "UnsafeImageMut::split_by_height_mut forwards (start_row, num_parts, height): the two NonZeroU32 arguments are swapped",
  "C14.guards key=split_by_height_mut|num_parts <= height; C08.split-guards key=split_by_height_mut|num_parts <= height", "caught by the checks as they stood"),
"C15": ("fit_into_destination with the centering of the cropped axis >= 1 and sizes for which the fitted dimension is one ulp below an integer (247x143 -> 165x143): left + snapped width exceeds the source by one ulp: SrcCroppingError",
  "resize_typed passes crop_box.width / height of a FitIntoDestination box through drop_rounding_noise (snap to the nearest whole number within 4 ulp); left / top stay as computed",
  "C15.crop-route key=resizer::Resizer::resize_typed|crop_box|edited", "missed; added crop-route"),
"C16": ("two-image forward_map / backward_map of U8x2 / U8x4 / U16x2 / U16x4 with two horizontally adjacent pixels of equal colour and different alpha: the second pixel gets the first one's alpha",
  "MappingTable::map_with_gaps becomes a per-pixel loop with a memo of the previous pixel keyed on the colour components only; a hit copies the whole previous destination pixel",
  "C16.gaps key=map_with_gaps|gap-less-part", "caught by the checks as they stood"),
"C17": ("u8 -> i32 -> u8 for 128..=254 and u16 -> i32 -> u16 for 32768..=65534: the round trip returns v + 1",
  "IntoPixelComponent<i32> for u8 / u16 replicate the bits into the vacated low bits ((v<<23)|(v<<15)|(v<<7)|(v>>1)); the narrowing rounds to nearest",
  "C17.round-trip key=u8->i32->u8; C17.round-trip key=u16->i32->u16", "missed (UNDECIDED: BitOr is not a linear form); exhaustive evaluation of the two expression trees over the narrow range added"),
"C18": ("U8x4, SSE4.1 selected explicitly, a horizontal pass with >= 8 coefficients, a row among the last dst_height % 4, k2 + k3 != k6 + k7 inside a block of eight: a flat image of 100 becomes 125 (Bilinear)",
  "u8x4 sse4 horiz_convolution_one_row: the shuffles for coefficients 4..7 are replaced by _mm_srli_si128::<4>(ksource) + the shuffles of coefficients 0..3; the shift is by bytes, i.e. by 2 coefficients",
  "C18.lane-pairing key=convolution::u8x4::sse4::horiz_convolution_one_row|_mm_madd_epi16#2|pairing; C02.lane-pairing key=convolution::u8x4::sse4::horiz_convolution_one_row|_mm_madd_epi16#2|pairing", "caught by C02 (lane-pairing); now also under C18 and C01"),
}
for sid, (needs, what, caught, missed) in sorted(D.items()):
    log = "/tmp/seed7/%s.confirm.log" % sid
    if not os.path.exists(log) or open(log).read().count("exit=") < 2:
        print("skip", sid)
        continue
    env = dict(os.environ, SEED_ROOT="/tmp/seed7", SRC_ID=sid)
    subprocess.check_call(["python3", S, sid + "g", sid, needs, what, caught, missed], env=env, stdout=subprocess.DEVNULL)
    p = '/verif/seeded/%sg/meta.json' % sid
    m = json.load(open(p))
    if sid == "C16":
        m["confirmed"]["tests_same_passing_set"] = True
        m["confirmed"]["note"] = "the only difference in the list of passing tests is the line number in the name of one doctest (line 207 -> 221)"
    for c in m['checks']:
        if ' key=' in c['key']:
            rule, frag = c['key'].split(' key=', 1)
            c['rule'] = rule
            c['key'] = frag
    json.dump(m, open(p, 'w'), indent=1)
