#!/usr/bin/env python3
"""tools/dev/try_patch.py <patch.diff> [Cxx ...]: applies a patch to a scratch copy of /repo and
runs the quick checks of all (or the named) properties on it; prints rc and violation keys.
Used to hunt for false alarms with behaviour-preserving refactorings."""
import os, shutil, subprocess, sys, tempfile
from concurrent.futures import ThreadPoolExecutor
VERIF = os.path.dirname(os.path.dirname(os.path.dirname(os.path.abspath(__file__))))
ALL = ["C01", "C02", "C03", "C04", "C05", "C06", "C07", "C08", "C09", "C11", "C12", "C13", "C14",
       "C15", "C16", "C17", "C18"]
TIER = "quick"
argv = sys.argv[1:]
if "--thorough" in argv:
    argv.remove("--thorough")
    TIER = "thorough"
patch = argv[0]
props = argv[1:] or ALL
scratch = tempfile.mkdtemp(prefix="fir-try-")
try:
    subprocess.check_call(["rsync", "-a", "--exclude", "target", "--exclude", ".git", "/repo/", scratch + "/"])
    subprocess.check_call(["patch", "-p1", "-s", "-d", scratch, "-i", os.path.abspath(patch)])

    def run(p):
        ev = tempfile.mkdtemp(prefix="fir-try-ev-")
        try:
            env = dict(os.environ, FIR_REPO=scratch, FIR_EVIDENCE_DIR=ev)
            r = subprocess.run([os.path.join(VERIF, "check"), p, "--tier", TIER], cwd=VERIF, env=env,
                               stdout=subprocess.PIPE, stderr=subprocess.STDOUT, text=True)
            keys = [l.strip() for l in r.stdout.splitlines() if l.strip().startswith("rule=")]
            warn = [l for l in r.stdout.splitlines() if l.startswith("CHECK-")]
            return p, r.returncode, keys, warn
        finally:
            shutil.rmtree(ev, ignore_errors=True)
    with ThreadPoolExecutor(max_workers=4) as ex:
        res = list(ex.map(run, props))
    bad = 0
    for p, rc, keys, warn in res:
        print("%s rc=%d %s %s" % (p, rc, keys[:4], [w[:120] for w in warn[:3]]))
        bad += rc != 0
    print("try_patch: %d properties not silent" % bad)
finally:
    shutil.rmtree(scratch, ignore_errors=True)
