#!/usr/bin/env python3
"""writes seeded/<id>f/meta.json for the round-6 seeds whose confirmation log exists"""
import json, os, subprocess
S = '/verif/tools/seed_meta.py'
D = {
"C01": ("an f32 pixel type, AVX2, a vertical pass and a destination row whose number of components is 5, 6 or 7 mod 8 (F32 width % 8 in 5..7, F32x2 width % 4 == 3, F32x3 widths 2, 5, 7): the last 1-3 components of every row are convolved from source columns four components to the left",
  "vertical_f32 avx2: a new stage handles a remaining group of four components with the SSE4.1 helper but does not advance src_x by 4, so the scalar tail reads shifted columns",
  "C01.cursor-advance key=convolution::vertical_f32::avx2::vert_convolution_into_one_row_f32|tier@K=4|cursor; C02.cursor-advance key=convolution::vertical_f32::avx2::vert_convolution_into_one_row_f32|tier@K=4|cursor", "missed; added the cursor-advance rule"),
"C02": ("U8x2, AVX2, rows of at least 16 pixels whose alpha varies along the row: pixels 4..7 of every block of 16 are multiplied by the alpha of pixels 8..11 and vice versa",
  "u8x2 avx2 multiply_alpha_16_pixels widens the factors with the cross-lane _mm256_cvtepu8_epi16 of the two halves while the pixels are still widened with the in-lane unpacklo / unpackhi",
  "C02.alpha-provenance key=alpha::u8x2::avx2::multiply_alpha_16_pixels|cross-pixel; C06.provenance key=alpha::u8x2::avx2::multiply_alpha_16_pixels|cross-pixel", "missed (UNDECIDED: the engine did not model cvtepu8_epi16 / castsi256_si128 / extracti128); intrinsics added"),
"C03": ("a dynamically typed Image / ImageRef over an oversized buffer whose length is not a multiple of the pixel size (5x3 U8x4 in 62 bytes): construction succeeds, the next resize / multiply_alpha / typed_image panics on `from_buffer(..).unwrap()`",
  "align_buffer_to(_mut) also reject a non-empty tail of align_to (InvalidBufferSize)",
  "C03.align-reject key=align_buffer_to|tail; C04.align-reject key=align_buffer_to|tail", "missed (the unwrap was UNDECIDED before and after); added align-reject"),
"C04": ("a large-enough, aligned buffer whose byte length is not a multiple of the pixel size (2x2 U8x3 in 16 bytes): from_buffer refuses it with InvalidBufferAlignment; Image / ImageRef constructors accept it and panic later",
  "align_buffer_to(_mut) reject a non-empty tail with InvalidBufferAlignment (the same edit as C03f with another error kind, made independently)",
  "C04.align-reject key=align_buffer_to|tail; C03.align-reject key=align_buffer_to|tail", "missed; added align-reject"),
"C05": ("U16x4, the two-image divide_alpha on SSE4.1 and width % 4 in {2, 3}: the last one or two pixels of every destination row are never written",
  "u16x4 sse4 divide_alpha_row is unrolled to chunks of 4 pixels; the tail still handles only `remainder.first()`",
  "C05.tail-complete key=alpha::u16x4::sse4::divide_alpha_row|first|partial-tail", "missed; added C05.tail-complete"),
"C06": ("U8x2, AVX2, rows of at least 16 pixels with different alphas inside a block of 16: pixels 4..7 are divided by the alpha of pixels 8..11 and vice versa (a pixel with alpha 0 can get a colour)",
  "u8x2 avx2 divide_alpha_16_pixels widens the alphas with srli + the cross-lane _mm256_cvtepu16_epi32 of the two halves; the in-lane packus then returns the reciprocals in another order than the pixels",
  "C06.provenance key=alpha::u8x2::avx2::divide_alpha_16_pixels|cross-pixel; C02.alpha-provenance key=alpha::u8x2::avx2::divide_alpha_16_pixels|cross-pixel", "missed (UNDECIDED); the same engine extension as C02f"),
"C07": ("Convolution(Box) or Interpolation(Box), up-scaling in both directions (not the same size), alpha handling on, an alpha pixel type and transparent source pixels with colour: the colour is copied into the destination",
  "resize_typed gets a match arm that routes the Box filter to resample_nearest when the destination is at least as large as the crop box ('Box up-scaling is nearest-neighbour')",
  "C07.alpha-less-routes key=resample_nearest|Convolution/Interpolation", "missed (C01.alg-table only lost its anchor); added C07.alpha-less-routes"),
"C08": ("rayon feature, at least 2 threads, a horizontal pass with a non-zero row offset (horizontal-only resize with integer crop top, or the first pass of a non-u8 two-pass resize with a crop top beyond the filter radius): bands read rows shifted by the offset or leave rows unwritten",
  "try_process_in_threads_h! forwards $offset to each band instead of 0 although split_h_two_images_for_threading already built the source bands at that offset",
  "C08.offset-once key=offset-twice; C12.offset-once key=offset-twice", "caught by the checks as they stood"),
"C09": ("a byte scratch buffer at an address that is not aligned for the pixel type (an allocator that places align-1 blocks at odd addresses), U16* / I32 / F32* and a second call that needs exactly as many bytes as the buffer holds without the gap: 'range end index 301 out of range for slice of length 300' on the reused Resizer only",
  "get_temp_image_from_buffer compares buffer.len() with the net image size and adds the alignment gap only when it grows the buffer",
  "C09.scratch-grow key=smaller-than-grown; C03.scratch-grow key=smaller-than-grown", "missed (UNDECIDED); a guard weaker than the grown size is now a violation"),
"C11": ("Nearest from a cropped view (TypedCroppedImage / CroppedImage), up-scaling vertically with more destination rows than the view has source rows below the crop start: the lower destination rows are never written",
  "TypedCroppedImage(Mut) get an iter_rows_with_step override that delegates to the wrapped image and limits the rows with .take(height - start_y), a count of source rows, while the iterator yields one item per destination row",
  "C11.cropped-rows key=override|float-offset; C13.view-offsets-cropped key=override|float-offset; C05.view-rect key=override|float-offset", "caught by C03 / C04 / C05 / C13 (override of the stepped iterator with a float start); rule now also under C11"),
"C12": ("an f32 pixel type, AVX2, a vertical-only pass (destination width == width of an integer-aligned crop with left > 0) and width * components not a multiple of 8: the last eight components of every row come from columns shifted left by the crop offset",
  "vertical_f32 avx2: the scalar tail is replaced by one overlapped 8-wide step whose source position is row_len - 8 instead of the running src_x (the edit of seed C02d, made independently under C12)",
  "C12.offset-flows key=offset-dropped; C02.offset-flows key=offset-dropped", "caught by C02; rule now also under C12"),
"C13": ("rayon feature, a cropped view as source, at least 2 threads and a band height that is not a multiple of the number of parts: source part i and destination part i have different heights and first rows (103 rows in 4 parts: 25,26,26,26 against 26,26,26,25)",
  "TypedCroppedImage(Mut)::split_by_height crops its parts directly at the boundaries i * height / num_parts instead of re-wrapping the parts of the inner view",
  "C13.split-siblings key=other-distribution; C08.band-sizes key=other-distribution", "missed (C14.sizes UNDECIDED: balanced, but another distribution than the siblings); sibling clause added"),
"C14": ("ImageView::split_by_width (default; TypedImage, TypedImageRef, the cropped wrappers through delegation) with width % parts not in {0, parts - 1}: 10 columns in 4 parts are 3,3,3,1; 33 in 8 parts end with an empty part; a band that touches the right edge panics",
  "the default split_by_width sizes its parts with width.div_ceil(num_parts) and gives the last part the rest",
  "C14.sizes key=image_view::ImageView::split_by_width|step-rounded-up; C08.band-sizes key=image_view::ImageView::split_by_width|step-rounded-up", "caught by the checks as they stood (rule of round 5)"),
"C15": ("FitIntoDestination with unequal aspect ratios and a size pair for which d * (s / d) != s in f64 (1920x1080 -> 200x133: cropping error; 1920x1080 -> 800x535: the box spans neither dimension)",
  "fit_src_into_dst_size computes both crop dimensions as dst * min(width / dst_width, height / dst_height) instead of assigning the uncropped dimension exactly",
  "C15.full-span key=path", "caught by the checks as they stood"),
"C16": ("backward_map from a 16-bit source to an 8-bit destination (sRGB or gamma 2.2): the forward function is applied a second time (8-bit sRGB 5 -> 16-bit linear -> back gives 0)",
  "PixelComponentMapper::new: while shortening the arguments to aliases fwd / bwd the table backward_mapping_tables.u16_u8 is built from fwd",
  "C16.table-ctor key=color::PixelComponentMapper::new|u16_u8|other-function", "missed (every table was 'built by MappingTable::new'); group-agreement clause added"),
"C17": ("f32 -> u8 / u16 for input above 1.0 (1.5 -> 32767 as u16, 1.001 -> 65): wraps modulo 256 / 65536 instead of saturating; not monotone at the top",
  "the two impls share a helper quantize_f32(v, max) -> u32 = (v * max + 0.5) as u32 without the clamp ('the cast saturates'); the later narrowing cast truncates",
  "C17.mono key=f32->u16|decreasing", "caught by the checks as they stood"),
"C18": ("a u16 pixel type, Bilinear / Hamming / Gaussian down-scaling with more than 8 taps and a geometry whose last tap is negligible (Hamming 353 -> 11): the last coefficient becomes negative; raising the source pixel under it lowers a destination pixel by one",
  "Normalizer32::new adds the rounding remainder of the sum of a long chunk to its last coefficient ('flat areas keep their value')",
  "C18.coefficients-untouched key=Normalizer32|adjusted; C01.coefficients-untouched key=Normalizer32|adjusted", "missed; added coefficients-untouched"),
}
for sid, (needs, what, caught, missed) in sorted(D.items()):
    log = "/tmp/seed6/%s.confirm.log" % sid
    if not os.path.exists(log) or open(log).read().count("exit=") < 2:
        print("skip", sid)
        continue
    env = dict(os.environ, SEED_ROOT="/tmp/seed6", SRC_ID=sid)
    subprocess.check_call(["python3", S, sid + "f", sid, needs, what, caught, missed], env=env, stdout=subprocess.DEVNULL)
    p = '/verif/seeded/%sf/meta.json' % sid
    m = json.load(open(p))
    for c in m['checks']:
        if ' key=' in c['key']:
            rule, frag = c['key'].split(' key=', 1)
            c['rule'] = rule
            c['key'] = frag
    json.dump(m, open(p, 'w'), indent=1)
