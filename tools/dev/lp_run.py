import sys, collections
from fircheck import progs
from fircheck.engines import lanepair
class R:
    c=collections.Counter(); why=collections.Counter()
    def rule(s,*a): pass
    def floor(s,*a): print("floor",a[1:])
    def note(s,t): print("note",t)
    def touch(s,f): pass
    def ok(s,r,k,loc,t,**kw): R.c['ok']+=1
    def bad(s,r,k,loc,t): R.c['bad']+=1; print("BAD",k,'::',t[:260])
    def unk(s,r,k,loc,t): R.c['unk']+=1; R.why[(k.split('|')[0].replace('convolution::',''), t[:110])]+=1
lanepair.pairing(R(),progs.program(sys.argv[1] if len(sys.argv)>1 else "x86"),"r")
print(R.c)
for k,v in R.why.most_common(60): print(v,k)
