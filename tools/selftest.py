#!/usr/bin/env python3
"""Self-test of the checks (development aid, not a registered check): applies each
mutants/<name>/patch.diff to a scratch copy of /repo (outside /repo and /verif, removed
afterwards) and asserts that the named property check fires (VIOLATION naming `key`) or stays
silent. The independently seeded changes under seeded/<id>/ are run the same way (name
`seed:<id>`).   usage: tools/selftest.py [name | seed:<id> ...]"""
import json
import os
import shutil
import subprocess
import sys
import tempfile

VERIF = os.path.dirname(os.path.dirname(os.path.abspath(__file__)))
REPO = "/repo"


def run_one(name):
    d = os.path.join(VERIF, "seeded" if name.startswith("seed:") else "mutants",
                     name.split(":", 1)[-1])
    meta = json.load(open(os.path.join(d, "meta.json")))
    scratch = tempfile.mkdtemp(prefix="fir-mut-")
    evdir = tempfile.mkdtemp(prefix="fir-mut-ev-")
    try:
        subprocess.check_call(["rsync", "-a", "--exclude", "target", "--exclude", ".git",
                               REPO + "/", scratch + "/"])
        args = ["patch", "-p1", "-s", "-d", scratch, "-i", os.path.join(d, "patch.diff")]
        if meta.get("reverse"):
            args.insert(1, "-R")
        pr = subprocess.run(args, stdout=subprocess.PIPE, stderr=subprocess.STDOUT, text=True)
        if pr.returncode != 0:
            # the patch no longer applies to /repo (e.g. after a fix: commit): every expectation of
            # this entry counts as failed until the patch is rebased
            return [(chk["property"], chk["expect"], False, -1,
                     ["PATCH DOES NOT APPLY: " + pr.stdout.strip().splitlines()[0][:100]])
                    for chk in meta["checks"]]
        results = []
        for chk in meta["checks"]:
            env = dict(os.environ, FIR_REPO=scratch, FIR_EVIDENCE_DIR=evdir)
            cmd = [os.path.join(VERIF, "check"), chk["property"], "--tier", chk.get("tier", "quick")]
            p = subprocess.run(cmd, cwd=VERIF, env=env, stdout=subprocess.PIPE,
                               stderr=subprocess.STDOUT, text=True)
            out = p.stdout
            fired = [l for l in out.splitlines() if l.startswith("VIOLATION")]
            keys = [l for l in out.splitlines() if l.strip().startswith("rule=")]
            ok = True
            if chk["expect"] == "fires":
                ok = p.returncode == 1 and any(chk.get("key", "") in k for k in keys)
            else:
                ok = p.returncode == 0 and not fired
            results.append((chk["property"], chk["expect"], ok, p.returncode,
                            [k.strip() for k in keys][:4]))
        return results
    finally:
        shutil.rmtree(scratch, ignore_errors=True)
        shutil.rmtree(evdir, ignore_errors=True)


def main():
    names = sys.argv[1:] or (sorted(os.listdir(os.path.join(VERIF, "mutants"))) +
                             ["seed:" + s for s in sorted(os.listdir(os.path.join(VERIF, "seeded")))
                              if os.path.isdir(os.path.join(VERIF, "seeded", s))])
    bad = 0
    todo = []
    for n in names:
        base = os.path.join(VERIF, "seeded", n[5:]) if n.startswith("seed:") else \
            os.path.join(VERIF, "mutants", n)
        if os.path.exists(os.path.join(base, "meta.json")):
            todo.append(n)
    from concurrent.futures import ThreadPoolExecutor
    jobs = int(os.environ.get("SELFTEST_JOBS", "4"))
    with ThreadPoolExecutor(max_workers=jobs) as ex:
        for n, res in zip(todo, ex.map(run_one, todo)):
            for (prop, exp, ok, rc, keys) in res:
                print("%-34s %-4s expect=%-6s %s rc=%d %s" % (n, prop, exp, "OK " if ok else "FAIL",
                                                             rc, keys if not ok or exp == "fires" else ""))
                bad += 0 if ok else 1
            sys.stdout.flush()
    print("selftest: %d failures" % bad)
    return 1 if bad else 0


if __name__ == "__main__":
    sys.exit(main())
