# Claim table read by tools/gen_manifest.py. Only implemented, armed and quiet checks go here.
CLAIMS = {
    "C02": dict(
        text="Structural necessary conditions for SIMD == native, decided for all paths and build "
             "configurations (x86, x86+rayon, aarch64/NEON, wasm32/SIMD128): every CpuExtensions "
             "dispatcher routes each variant to the kernel of the matching back-end module with the "
             "arguments of the native arm, no SIMD kernel is shared by two operations or named like "
             "another operation's native kernel; target-feature closure of each arm is implied by "
             "the variant; precision tables (constify_imm8!) cover the normaliser's precision "
             "interval without holes, arm k instantiates PRECISION=k, no producible arm is empty. "
             "Bit equality of the computed pixels is NOT decided.",
        note="Trusted: rustc type checker/MIR, firdrv, back-end module naming (avx2/sse4/neon/"
             "wasm32/native). Numerical equality of kernels is out of reach of this technique.",
        technique="static analysis: dispatch-table extraction from MIR SwitchInt + call-graph "
                  "feature closure + interval analysis of the precision selector",
    ),
}
NOT_APPLICABLE = {
    "C10": "partition of unity of quantised runtime weight vectors is an arithmetic identity over "
           "runtime values (sum of individually rounded f64->i16 conversions); no abstract domain "
           "in reach bounds it, and the structural preconditions are checked under C01 instead",
}
