# Claim table read by tools/gen_manifest.py. Only implemented, armed and quiet checks go here.
CLAIMS = {}
NOT_APPLICABLE = {
    "C10": "partition of unity of quantised runtime weight vectors is an arithmetic identity over "
           "runtime values (sum of individually rounded f64->i16 conversions); no abstract domain "
           "in reach bounds it, and the structural preconditions are checked under C01 instead",
}
