# Claim table read by tools/gen_manifest.py. Only implemented, armed and quiet checks go here.
CLAIMS = {'C03': {'text': 'Hazards of the geometry/container layer are enumerated from MIR and each gets an '
                 'obligation: ~160 overflow/division asserts (intervals + guard facts; definite '
                 'when operands are caller-controlled and unguarded), crop validation (NaN, sign, '
                 'upper bounds, axis), construction of cropped views only behind check_crop_box, '
                 "unchecked row/column slices equal the view's own rectangle, nearest-neighbour "
                 'index clamp adequacy, bounded unchecked reads of static tables, every unwrap '
                 'classified, CroppedSrcImageView::crop_unchecked reached only by already '
                 'validated or literal whole-view boxes, every get_unchecked outside the kernel '
                 'modules is one of the 8 justified sites (a float-truncated unclamped index is a '
                 'violation), guard adequacy of every SIMD helper load (bytes read vs. elements '
                 'the dominating guard / chunk loop leaves), precision tables without holes, '
                 'target-feature closure of dispatcher arms; in the thorough tier also NEON/WASM '
                 'configurations and type-level witnesses (unsafe set_cpu_extensions, sealed '
                 'InnerPixel, private internals). A scratch Vec that is sliced after a conditional '
                 'resize is grown under len(v) < n for the same n (a capacity or emptiness test '
                 'leaves it shorter than the slice on a reused Resizer). Every store through a raw '
                 'pointer in the kernel, alpha and SIMD-helper modules (store intrinsics, '
                 'ptr::write, assignments through *mut T: 120 / 49 / 55 sites on x86 / arm / wasm) '
                 'ends inside the object its pointer was taken from (local array, chunk of '
                 'chunks_exact_mut(N), one pixel, parameter resolved at the call sites); wrapping '
                 'products of caller-controlled values are reported with a concrete assignment '
                 'that satisfies every guard on the path. In precompute_coefficients every step of '
                 'bound_start / bound_end keeps bound_start <= bound_end (guarded steps, or a '
                 "count over the current pixel's coefficients only), so Bound.size cannot wrap. "
                 'Does NOT decide in-kernel index bounds, accumulator ranges or allocation '
                 'failure; UNDECIDED obligations are listed in the evidence and are not proofs.',
         'note': 'Free-atom premise: arguments of the safe API are unconstrained and independent '
                 'of object state; user ImageView impls honour the unsafe trait contract. 32-bit '
                 'usize (wasm) arithmetic is informational only.',
         'technique': 'static analysis: abstract interpretation over MIR (symbolic values, '
                      'edge-dominance guard facts, intervals, call-site parameter ranges) + '
                      'compile-fail witnesses',
         'witness': True},
 'C04': {'text': 'Validator obligations written from the property and checked on the Ok paths of '
                 'each constructor for all inputs: CroppedSrcImageView::crop establishes not-NaN, '
                 '>= 0 and same-axis upper bounds for all four fields; check_crop_box bounds '
                 'left+width / top+height without a wrapping sum; the six buffer-backed '
                 'constructors compare len with a width*height(*size) product that cannot wrap and '
                 'check alignment; from_buffer variants go through the alignment helper (head must '
                 'be empty); every aggregate of a cropped view is dominated by the success edge of '
                 'check_crop_box with matching field roles; all arithmetic asserts of crop_box.rs '
                 'and images/*.rs.; crop_unchecked is never handed a box that comes from the '
                 'options (user crop, fit-into-destination, whole-image default) without passing '
                 'through crop. The converse (nothing inside is rejected) is only covered through '
                 'the exact forms recognised; unrecognised forms become UNDECIDED. '
                 'PixelType::is_aligned demands exactly the component alignment for each of the 13 '
                 'pixel types.',
         'note': 'Accepted fact forms are enumerated in fircheck/engines/validators.py.',
         'technique': 'static analysis: guard-fact entailment on Ok-return paths (MIR), closure '
                      'inlining for checked_mul/map_or, dominance of constructors by validators'},
 'C05': {'text': 'Decides, for all paths of 25 entry points and all 54 per-format trait '
                 'implementations in every build configuration: each non-error, non-zero-size path '
                 'reaches a call that obtains mutable rows of the destination (must-write '
                 'summaries bottom-up over the call graph, trait calls over all impls); every row '
                 "iterator of the containers is bounded by the view's height or delegates.; every "
                 'group-of-N row loop of the per-format wrappers is followed by a tail loop over '
                 'the rows height - height % N.., so no destination row is left out; mutable '
                 'cropped views hand out only rows top+start.. limited by height-start and columns '
                 '[left, left+width).; where do_convolution falls back to the copy routine and '
                 'ignores its result, the conditions of that arm establish the exact equalities '
                 'the copy needs (so it cannot fail silently). The f32 vertical x86 helpers '
                 'generic over the number of accumulators write SUMS_COUNT * lanes components '
                 'through a raw pointer: every call site passes a chunk of exactly that many '
                 'components. Raw stores end inside the object their pointer was taken from '
                 '(storewidth: the bytes of the chunk / array / pixel are read from the code, '
                 'offsets and widths from the pointer arithmetic and the intrinsic). Every '
                 'iter_rows_with_step implementation yields ceil((height - start)/step) rows (up '
                 'to max_rows), so no destination row is skipped. No size of an intermediate image '
                 'is the result of a division by an unguarded caller value that may be zero (an '
                 'empty intermediate image makes both steps leave at their zero-size guards). '
                 "Does NOT decide that a kernel's "
                 'inner column loops visit every column.',
         'note': 'Leaf write event = ImageViewMut::{iter_rows_mut,iter_N_rows_mut,split_by_*_mut}; '
                 'what a kernel does with the rows is not analysed. Zero-size guards are '
                 'recognised as comparisons of width()/height()/crop fields with 0.',
         'technique': 'static analysis: must-pass-through on MIR CFG with alias tracking + '
                      'interprocedural must-write summaries; data-dependence of returned '
                      'iterators; structural row-coverage rule (group loop + tail loop)'},
 'C06': {'text': 'Clauses decided for all inputs and, in the thorough tier, for the NEON and '
                 'SIMD128 code that cannot run in this sandbox: the five MulDiv tables and '
                 'is_supported equal the set of AlphaMulDiv impls; every value stored by a SIMD '
                 'division routine is derived from the quotient through a saturating narrowing of '
                 'the component width (expression DAG cut at '
                 'packus/min-with-constant/vqmovn/narrow nodes, callees inlined); the operand of '
                 'every wrapping float->int conversion in x86/wasm division primitives is bounded '
                 'below 2^31 (lane-interval evaluation through masks, byte shuffles, '
                 'unpack-with-zero); native routines copy the alpha component; two-image and '
                 'in-place variants reach the same primitives; arithmetic of div_and_clip{,16} '
                 "against the reciprocal tables' maxima cannot overflow.; every integer multiply "
                 'primitive of every back-end (52 functions incl. the NEON helpers and '
                 'mul_div_255/65535) computes round(c*a/max) by the exact idiom (t + (t >> k)) >> '
                 'k, t = c*a + 2^(k-1) (normal form of the lane expression DAG; the classical '
                 'wrong variants are violations, other forms undecided); a per-lane primitive '
                 'returns its input unchanged only under an all-lanes predicate.; in the 16 x86 '
                 'vector primitives every product / quotient combines values of one pixel only, '
                 "result byte i comes from pixel i // size and its own component (and that pixel's "
                 "alpha), alpha bytes are the argument's (provenance tags through shuffles, masks, "
                 'packs, blends); two-image and in-place variants of the 16-bit division use the '
                 'same primitive family (float quotient vs. fixed-point reciprocal). The only '
                 'pixels a division sets to colour 0 are those with alpha = 0: every '
                 'data-dependent branch of the portable divide routines and every comparison '
                 'intrinsic of the SIMD divide primitives is an exact test against zero (an '
                 'ordering test or another constant on floating-point alpha is a violation). '
                 'RECIP_ALPHA[0] = 0 and every entry is within half a unit of 2^k * 255 / a '
                 '(compile-time table contents). The 16-bit reciprocal table keeps the quotient '
                 'error below 1/2 for every alpha (otherwise a colour / alpha pair with a '
                 'non-neighbouring result is exhibited). Does NOT decide faithfulness of the '
                 'reciprocal tables nor the float paths.',
         'note': 'Intrinsic classification tables (saturating / arithmetic / load) are in '
                 'fircheck/engines/deps.py; lane bounds assume alpha >= 1 (alpha == 0 is the '
                 "kernels' documented indefinite-value path).",
         'technique': 'static analysis: data-dependence (derived-through) over symbolic expression '
                      'DAGs of MIR with callee inlining + interval evaluation of SIMD lanes + '
                      'normal-form matching of the rounded-division idiom'},
 'C09': {'text': 'Scratch-buffer discipline decided on all paths: each of the 4 scratch images '
                 '(premultiply, two temp images of the two-pass convolution, supersampling) is the '
                 'destination of a must-write operation before any read (dominance); '
                 'get_temp_image_from_buffer sizes count*size + size() bytes, grows only, uses the '
                 'aligned middle part and slices exactly width*height pixels for an image of the '
                 "same dimensions; the premultiply scratch has the multiplied view's size. "
                 'Resizer::clone carries every non-buffer field over from self (the back-end is '
                 'kept both in cpu_extensions and in mul_div); the scratch buffer is grown under a '
                 'test of its length, never its capacity. Any field of Resizer other than the '
                 'back-end and the byte buffers is state a later call can observe: a function that '
                 'rebuilds such state only under a condition must test every parameter the rebuilt '
                 'value depends on (cache key completeness). Does NOT decide that writers fill '
                 "every pixel (C05's kernel-internal part) nor compares runs; no branch on the "
                 'resize path depends on len()/capacity() of a scratch buffer except the grow test '
                 '(a reused Resizer takes the same code path as a fresh one).',
         'note': 'Writer = callee with a must-write summary (C05) on the scratch parameter.',
         'technique': 'static analysis: write-before-read typestate via dominators + must-write '
                      'summaries; structural matching of the sizing expression (MIR)'},
 'C07': {'text': 'Typestate of the alpha pipeline in Resizer::resample_convolution, decided on all '
                 'CFG paths: premultiply only under use_alpha && is_supported; on its success edge '
                 'the only convolution reads the premultiplied scratch image (with the original '
                 'crop box) and is followed on every path by exactly one divide of the '
                 'destination; no divide anywhere else; other convolutions read the original view; '
                 'Nearest/copy reach no alpha code; the five MulDiv pixel-type tables equal the '
                 'set of AlphaMulDiv impls.; the premultiply covers the whole source view and '
                 'precedes every read of the scratch image; no SIMD multiply/divide primitive '
                 'returns its input early under a predicate that holds as soon as one lane matches '
                 '(any-lane fast path). The branch of a divide routine that overwrites the whole '
                 'pixel (alpha included) is taken only under an exact zero test of alpha, so the '
                 'resampled alpha channel leaves the division unchanged. resample_super_sampling '
                 'hands its destination only to resample_convolution with its own use_alpha flag. '
                 'Does NOT decide the metamorphic equalities (independence of colours under alpha '
                 '0).',
         'note': 'Anchors by def-path (resample_convolution, multiply_alpha_typed, do_convolution, '
                 'divide_alpha*); unrecognised shapes become UNDECIDED.',
         'technique': 'static analysis: dominance / must-pass-through typestate on MIR CFG, '
                      'call-graph reachability, enum-table comparison'},
 'C08': {'text': 'On the rayon configuration (x86 and aarch64), for all 50 expansions of the '
                 'threading macros: the threaded branch hands the source offset to the split and 0 '
                 'to the per-band operation, the sequential branch hands it to the operation, both '
                 'call the same operation with the same remaining arguments and images; horizontal '
                 'passes and alpha operations split by height, vertical passes by width; source '
                 'and destination are split with the same size and part count on the same axis; '
                 'band-count arithmetic cannot overflow; split guards hold in all 17 split '
                 'implementations and the cropped views forward start+top / start+left on the '
                 'matching axis; the aliasing handle UnsafeImageMut is created only inside the '
                 'default mutable splits and is the only unsafe Send/Sync impl (witnesses W3, W5 '
                 'in the thorough tier).; both images of a two-image split go through split_by_* '
                 '(hand-placed bands at offset + i*total/n are a violation). No closure run by '
                 'rayon restarts an accumulating row iterator at base + step * k. Does NOT decide '
                 'disjointness of the band rectangles (loop-carried sums) nor anything about '
                 'scheduling at run time.',
         'note': 'Schedule independence is argued structurally: bands are disjoint views created '
                 'by the splits (C14) and each band runs the sequential operation; the arithmetic '
                 'heart (part sizes sum to the band) is not proved.',
         'technique': 'static analysis: call-site agreement between macro-expanded sibling '
                      'branches (MIR), closure capture substitution, guard-fact entailment',
         'witness': True},
 'C13': {'text': 'Decides the conditions under which a container could influence a result at all: '
                 'no kernel or typed entry point (465 signatures) names a concrete container type, '
                 'so kernels observe images only through ImageView/ImageViewMut (parametricity; W6 '
                 'in the thorough tier); contiguous containers yield rows of exactly self.width '
                 'pixels from start_row*self.width, cropped views yield [left, left+width) of rows '
                 'top+start_row bounded by height; a cropped view overrides no other row iterator '
                 'in a way that mixes its integer offset into a floating-point row position; all '
                 'iter_rows_with_step implementations derive the row index from the floating-point '
                 'position in the same way (all accumulate or all multiply by the index); the 15 '
                 'dynamic entry points do no pixel processing of their own; inside kernels no '
                 'align_to with a stricter alignment than the row element and no pointer '
                 'inspection (address independence). The slice-based splits cut their parts at '
                 'offsets that include start_row, for every container kind. Does NOT decide that '
                 'the specialised overrides (iter_rows_with_step, slice splits) equal the trait '
                 'defaults, nor any equality between two runs; row-end over-reads are decided by '
                 'the load-width rule (C13.row-end).',
         'note': 'Parametricity argument: Rust generics without specialisation/TypeId; the unsafe '
                 'trait contract (rows >= width) is assumed for user views.',
         'technique': 'static analysis: signature scan of the type-checked program, structural '
                      'matching of row iterators, call-graph purity of dispatchers, intrinsic/cast '
                      'scan; compile-fail witness',
         'witness': True},
 'C14': {'text': 'For all 17 split implementations: parts are returned only after num_parts <= '
                 'size <= extent and start <= extent - size on the split axis (or pure '
                 'delegation); loop splits push exactly one part per iteration of 0..num_parts, '
                 'wrapping splits map inner parts one-to-one; cropped views forward start + own '
                 'offset and re-wrap parts with their own offset/extent on the other axis; '
                 'slice-based splits cut rows of self.width pixels; UnsafeImageMut handles are '
                 'confined to the default mutable splits; all arithmetic asserts in split code '
                 'classified. The split loops run num_parts iterations (any equivalent range) with '
                 'one push each; products of caller-controlled values on the way to the part '
                 'boundaries do not wrap (witness search on the guards). Part slices start at '
                 'start_row (lower-bound analysis of the slicing steps); re-wrapping closures are '
                 'checked through their captured locals. Does NOT decide that part sizes differ by '
                 'at most one and sum to the band (loop-carried arithmetic); every part a split '
                 'builds itself is placed at a running sum of the previous sizes (index times own '
                 'size is a violation when sizes differ).',
         'note': 'Exact-tiling arithmetic inside the loops is listed as UNDECIDED obligations.',
         'technique': 'static analysis: guard-fact entailment on Some-return paths, loop structure '
                      '(dominators/natural loops), argument-role comparison across wrappers',
         'witness': True},
 'C12': {'text': 'Decides the structure of the same-size fast path: every resampler call in '
                 'resize_typed is dominated by the failure edge of copy_image and the success edge '
                 'returns without touching the destination again; copy_image returns Ok only under '
                 'the four integrality facts and both same-axis dimension equalities and copies '
                 'rows with copy_from_slice into iter_rows_mut(0); the '
                 'need_horizontal/need_vertical decisions depend only on their own axis; '
                 'do_convolution writes on every non-degenerate path (incl. the no-pass arm).; the '
                 'nearest pre-step of SuperSampling is taken only under min(width_scale, '
                 'height_scale)/multiplicity > c >= 1, i.e. never when one dimension already '
                 "matches.; the arm that skips both passes and ignores the copy routine's result "
                 "establishes exactly the copy's success conditions; crate-local predicates in "
                 'these decisions are inlined one level. Bit equality itself is not decided. With '
                 'fit_into_destination and equal aspect ratios the fitted box is the whole source '
                 'exactly (the approximately-equal branch; fl(fl(w/h)*h) is one ulp off w for '
                 'about 8 % of the sizes). A copy that is spread over threads applies the crop '
                 'offset once (split) and not again inside the band closure.',
         'note': 'Facts are branch conditions on dominating edges (no path enumeration).',
         'technique': 'static analysis: edge-dominance facts + must-write summaries on MIR'},
 'C01': {'text': 'Decided on all paths: the geometry formulas of precompute_coefficients are, as '
                 'polynomial functions of their inputs, the ones the property states (centre in0 + '
                 '(i+1/2)(in1-in0)/out_size, window floor/ceil(centre -/+ support*filter_scale) '
                 'with clamps to 0 and in_size, kernel argument (x+1/2-centre)/filter_scale, '
                 'filter_scale in {1, max(scale,1)}, source interval [left,left+width) / '
                 '[top,top+height) at both call sites; weights scaled by 1 << stored precision); '
                 'and the plumbing any correct two-pass separable resampler needs: X/Y kind '
                 'inference shows every precompute_coefficients call gets inputs of one axis, '
                 'horizontal coefficients reach only horiz_convolution and vertical ones only '
                 'vert_convolution, pass offsets are of the other axis, temp images are (X extent, '
                 'Y extent); ResizeAlg arms route to the right resampler with the right adaptive '
                 "flag; each built-in filter's declared support covers the cut-off its kernel "
                 'function compares with; window start/end are clamped to [0, in_size] and weights '
                 'are normalised. The precision search of Normalizer16/32::new can reach the '
                 'head-room of the accumulator (21 / 45 bits): a search capped at or below the '
                 'width of the coefficient type loses the adaptation to the small weights of wide '
                 'windows. The rounding terms that reach every final shift total exactly half an '
                 'output unit (round-budget, as under C02 / C18). Every floating-point multiply / '
                 'add of the f32 kernels is double precision (one rounding to f32 at the end). The '
                 'numerical error bound of the property is NOT decided.',
         'note': 'Kind sources are getter/field/parameter names (width/left/col vs '
                 'height/top/row).',
         'technique': 'static analysis: polynomial normal form of MIR expressions compared with '
                      'the stated formulas + abstract interpretation over an X/Y kind lattice with '
                      'closure substitution; enum-table and constant extraction'},
 'C11': {'text': 'Decides: the column position before truncation is left + '
                 '(x+1/2)*crop_width/dst_width, the rows start at top + crop_height/dst_height/2 '
                 'and step by crop_height/dst_height (polynomial comparison), every '
                 'iter_rows_with_step implementation truncates an accumulator that starts at '
                 'start_y and grows by exactly step; the column table of resample_nearest is built '
                 'from horizontal quantities only and rows are stepped with vertical ones only; '
                 'the unchecked column index is the pretabulated entry itself, clamped with '
                 'width-1 of the view whose rows are read (a bound that depends on the crop box is '
                 'a violation); the stored pixel is a loaded pixel with no arithmetic; no alpha '
                 'code is reachable. resample_nearest takes no state from the Resizer except '
                 'through a cache whose key covers every input of the cached value. Row / column '
                 'index arithmetic of the Nearest path (including the closures of '
                 'iter_rows_with_step) cannot wrap (witness search through closure captures). Does '
                 'NOT decide floating-point accumulation error of the row position nor that the '
                 'two iter_rows_with_step implementations skip rows identically.',
         'note': 'Clamp adequacy is a stated-belief rule (a bound equal to the row length is '
                 "reachable by the author's own reckoning).",
         'technique': 'static analysis: polynomial normal form of MIR expressions + kind inference '
                      '+ iterator-source tracing + dependence (copy-only) on MIR'},
 'C15': {'text': 'Decides for fit_src_into_dst_size: left = (width - crop_width)*centering.0 and '
                 'top = (height - crop_height)*centering.1 as polynomial functions; left depends '
                 'on centering.0 and the width margin only, top on centering.1 and the height '
                 'margin only; both centering components are clamped to [0,1] inside '
                 'fit_src_into_dst_size itself (a raw caller value is a violation: the function '
                 'and the enum variant are public); on each of the three ratio branches one crop '
                 'dimension is the full source dimension; get_crop_box passes (src w, src h, dst '
                 'w, dst h) in order.; a crop dimension computed from the ratios is assigned only '
                 'under a strict ratio comparison (or after the approximately-equal branch) or '
                 'clamped, so fl(ratio*height) cannot exceed the source width. No integer '
                 'arithmetic on the way to the fitted box can wrap. left = (width - crop_width) * '
                 'centering.0 and top = (height - crop_height) * centering.1 on every path, also '
                 'through a helper and correlated branches. Does NOT decide aspect accuracy nor '
                 'sizes beyond 2^26 per side.',
         'note': 'Local names crop_width/crop_height/centering are anchors (CHECK-ERROR/UNDECIDED '
                 'if renamed).',
         'technique': 'static analysis: polynomial normal form + data-dependence and branch-wise '
                      'definitions with dominating guard facts on MIR'},
 'C16': {'text': 'Decides: the four built-in transfer functions are non-decreasing on [0,1] and '
                 'the table-entry expression of MappingTable::new is non-decreasing in the index '
                 'for any non-decreasing transfer function (piecewise abstract interpretation over '
                 'monotonicity x interval); map_with_gaps is called with gap step N exactly in the '
                 'arm for N components (or, when the step is chosen by pixel type, every 8/16-bit '
                 'type with alpha has an arm with its component count) and sends the alpha '
                 'position through into_component, everything else through the table; all 16 '
                 'map_image calls are dominated by the width and height comparisons.; each '
                 'transfer function maps 0 to 0 and 1 to 1, its pieces meet at every breakpoint '
                 '(jump <= 1e-6; > 2 16-bit steps is a violation) and the backward function undoes '
                 'the forward one at the breakpoints (interval evaluation at constant points). '
                 'Every Ok of PixelComponentMapper::map that does not follow a map_image call '
                 'comes after the comparison of the dimensions. All eight tables are built by '
                 'MappingTable::new from the transfer function (none derived from another table by '
                 'a depth conversion). Does NOT decide that every entry equals the rounded '
                 'transfer function nor the 8->16->8 round trip as such.',
         'note': 'powf/exp/round/clamp transfer functions are part of the trusted tables; const '
                 'generic SIZE is assumed >= 2.',
         'technique': 'static analysis: abstract interpretation (monotonicity x interval, input '
                      'partitioned at compared constants) + guard dominance on MIR'},
 'C17': {'text': 'Decides monotonicity of all 13 IntoPixelComponent impls by piecewise abstract '
                 'interpretation (casts, shifts, clamp, saturating_add, byte extraction, division '
                 'by constants with sign), including definite non-monotonicity (division of the '
                 'negative half by a negative constant: two known findings; wrapping narrowings); '
                 'the typed entry point writes only after both dimension equalities; W4 '
                 '(thorough): different component counts do not type-check. A conversion whose '
                 'computed value leaves its integer output type (an unchecked shift) is reported '
                 'as wrapping. Endpoint values and widening round trips are NOT decided; each '
                 'widening round trip (u8->u16, u8->i32, u8->f32, u16->i32, u16->f32 and back) is '
                 'the identity on the whole narrow range, decided from the composed form '
                 'floor((a*v+b)/d) at the ends of the range.',
         'note': "Verdict 'decreasing' needs a non-degenerate output interval on a non-degenerate "
                 'input piece.',
         'technique': 'static analysis: abstract interpretation (monotonicity x interval) on MIR + '
                      'compile-fail witness',
         'witness': True},
 'C18': {'text': 'Decides the three mechanisms the property names: Box/Bilinear/Hamming/Gaussian '
                 'kernel functions return values in [0, inf) on every piece of their domain; pixel '
                 'data is never sign-extended before the signed multiply-add (intrinsic scan of '
                 'all kernel modules + constant shuffle masks); every destination store of the '
                 '8/16-bit SIMD convolution kernels passes a saturating narrowing of the component '
                 'width (all back-ends in the thorough tier).; the rounding term that reaches '
                 'every final shift / clip is exactly 1 << (precision-1) in every lane (x86: 121 '
                 'sinks, NEON 68, SIMD128 65), so rounding never adds more than half a unit. The '
                 'f32 kernels accumulate in f64 (single-precision accumulation over the window '
                 'overshoots by many ulp). Accumulator wrap and monotonicity of the shift/round '
                 'pipeline on runtime values are NOT decided.',
         'note': 'sin is bounded by [0,1] on [0,pi], cos by [-1,1]; intrinsic tables in '
                 'fircheck/engines/{deps,simd_rules}.py.',
         'technique': 'static analysis: interval evaluation of scalar kernels + data-dependence '
                      '(derived-through / never-through) over MIR expression DAGs + lane-level '
                      'abstract interpretation of accumulator rounding content'},
 'C02': {'text': 'Structural necessary conditions for SIMD == native, decided for all paths and '
                 'build configurations (x86, x86+rayon, aarch64/NEON, wasm32/SIMD128): every '
                 'CpuExtensions dispatcher routes each variant to the kernel of the matching '
                 'back-end module with the arguments of the native arm, no SIMD kernel is shared '
                 "by two operations or named like another operation's native kernel; "
                 'target-feature closure of each arm is implied by the variant; precision tables '
                 "(constify_imm8!) cover the normaliser's precision interval without holes, arm k "
                 'instantiates PRECISION=k, no producible arm is empty; every destination store of '
                 'an 8/16-bit SIMD convolution kernel is derived from the accumulator through a '
                 'saturating narrowing of the component width; pixel data is never sign-extended '
                 '(no sign-extending widening intrinsic, shuffle masks feeding madd_epi16 zero the '
                 'high byte of each lane).; every per-format wrapper that feeds a group-of-N '
                 'kernel also runs a one-row tail loop from height - height % N (no row is skipped '
                 'or paired with the wrong source row); every (buffer, index) vector load of a '
                 'kernel reads at most what its loop guard, cursor-aligned coefficient chunk or '
                 "destination chunk leaves (load widths derived from the helpers' bodies); the "
                 'rounding constants that reach each final normalisation total exactly half an '
                 'output unit in every lane (lane-level rounding budget through horizontal adds, '
                 'extractions, stores/reloads and helper calls).; in every x86 kernel each '
                 'multiply pairs source pixel j of the current coefficient chunk with coefficient '
                 'j (vertical kernels: source row r with coefficient r), whole components, one row '
                 'and one component per accumulator lane, every coefficient used exactly once '
                 '(byte-level symbolic evaluation of 244 multiply operands through loads, shuffle '
                 'masks, unpacks and broadcasts; 237 followed); the source cursor advances by '
                 'exactly the chunk size. In the x86 horizontal kernels byte b of the pixel stored '
                 'for destination row i is accumulated from products of source row i, component b '
                 '// component_size only ((row, component) tags followed from the multiply lanes '
                 'through the accumulator arrays, shifts, packs, extracts, spill buffers, clip '
                 'calls and store helpers; 82 of 96 stores followed). The alpha primitives are '
                 'held to the portable routines as in C06: exact zero test as the only '
                 'transparency guard, the rounded-division normal form, pixel/component '
                 'provenance, no any-lane early return. In every vertical kernel the index of '
                 'every source access depends on the column cursor src_x (the offset of the pass '
                 'is never dropped). The f32 kernels of every back-end accumulate in f64 like the '
                 'portable code. Bit equality of the computed pixels is NOT decided.',
         'note': 'Trusted: rustc type checker/MIR, firdrv, back-end module naming '
                 '(avx2/sse4/neon/wasm32/native). Numerical equality of kernels is out of reach of '
                 'this technique.',
         'technique': 'static analysis: dispatch-table extraction from MIR SwitchInt + call-graph '
                      'feature closure + interval analysis of the precision selector + '
                      'data-dependence over expression DAGs + available-fact guard adequacy of '
                      'loads + lane-level abstract interpretation of accumulator rounding content '
                      '+ byte-level symbolic evaluation of SIMD operands (lane pairing)'}}

NOT_APPLICABLE = {
    "C10": "partition of unity of quantised runtime weight vectors is an arithmetic identity over "
           "runtime values (sum of individually rounded f64->i16 conversions); no abstract domain "
           "in reach bounds it, and the structural preconditions are checked under C01 instead",
}
