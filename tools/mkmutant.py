#!/usr/bin/env python3
"""tools/mkmutant.py <name> <what> <check-spec>... -- <file> <old> <new> [<file> <old> <new> ...]
Creates mutants/<name>/{patch.diff,meta.json} from textual replacements against /repo
(each `old` must occur exactly once). check-spec: Cxx:fires:<key substring> | Cxx:silent"""
import difflib
import json
import os
import sys

VERIF = os.path.dirname(os.path.dirname(os.path.abspath(__file__)))


def main():
    a = sys.argv[1:]
    sep = a.index("--")
    name, what, specs = a[0], a[1], a[2:sep]
    edits = a[sep + 1:]
    patch = []
    for i in range(0, len(edits), 3):
        path, old, new = edits[i], edits[i + 1], edits[i + 2]
        old = old.replace("\\n", "\n")
        new = new.replace("\\n", "\n")
        src = open(os.path.join("/repo", path)).read()
        if src.count(old) != 1:
            sys.exit("%s: `old` occurs %d times in %s" % (name, src.count(old), path))
        dst = src.replace(old, new)
        patch.extend(difflib.unified_diff(src.splitlines(True), dst.splitlines(True),
                                          "a/" + path, "b/" + path))
    d = os.path.join(VERIF, "mutants", name)
    os.makedirs(d, exist_ok=True)
    open(os.path.join(d, "patch.diff"), "w").write("".join(patch))
    checks = []
    for s in specs:
        parts = s.split(":", 2)
        checks.append({"property": parts[0], "expect": parts[1],
                       "key": parts[2] if len(parts) > 2 else ""})
    json.dump({"what": what, "checks": checks}, open(os.path.join(d, "meta.json"), "w"), indent=1)


if __name__ == "__main__":
    main()
